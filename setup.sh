#!/bin/bash
# Builds the verification framework from files on disk only (offline) and proves determinism of
# the simulator on a sample (see DESIGN.md 2.1).
set -eu
cd "$(dirname "$0")"
export CARGO_NET_OFFLINE=true
mkdir -p target evidence replays
(cd sim && cargo build --release --offline --bin verifsim --bin verifsim_mt --bin probe_sendsync)
./tools/selftest_determinism.sh 300
echo "setup: ok"
