#!/bin/bash
# Builds the verification framework from files on disk only (offline) and proves determinism.
set -eu
cd "$(dirname "$0")"
export CARGO_NET_OFFLINE=true
mkdir -p target evidence replays
(cd sim && cargo build --release --offline --bin verifsim)
echo "setup: ok"
