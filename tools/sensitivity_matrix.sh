#!/bin/bash
# tools/sensitivity_matrix.sh [patch...]  -> sensitivity/RESULTS.md
# Runs every quick check against every sensitivity mutant (own, hand-written) and records which
# check reports a violation. Each mutant is also checked against the baseline 58 tests in a
# scratch worktree (removed afterwards).
set -u
cd /verif
patches=("$@"); [ ${#patches[@]} -eq 0 ] && patches=(sensitivity/*.diff)
out=sensitivity/RESULTS.md
{
echo "# Sensitivity matrix (own hand-written mutants; quick tier; VERIF_SEED default)"
echo
echo "DET = the check printed a VIOLATION line and exited 1; - = exit 0; ERR = exit 2. tests = number of the 58 baseline tests that still pass with the mutant. C15 column: compile-time probes + scheduler engine; the Miri engine is added for the c15_* mutants when those stay silent."
echo
echo "| mutant | tests | C04 | C08 | C11 | C15 |"
echo "|---|---|---|---|---|---|"
} > $out
for p in "${patches[@]}"; do
  name=$(basename $p .diff)
  wt=/tmp/evx-sens-$name
  rm -rf $wt; git -C /repo worktree prune
  git -C /repo worktree add -q --detach $wt HEAD
  passed=$( (cd $wt && git apply /verif/$p && CARGO_TARGET_DIR=$wt/target cargo test --offline --lib --tests 2>&1 | grep -E "^test result" | sed -E 's/.* ([0-9]+) passed.*/\1/' | paste -sd+ | bc) )
  git -C /repo worktree remove --force $wt; rm -rf $wt; git -C /repo worktree prune
  row="| $name | ${passed:-?} |"
  for c in C04 C08 C11 C15; do
    if [ $c = C15 ]; then
      # probe + scheduler engine first; the Miri engine (minutes) only for the C15 mutants, and
      # only if the first two stay silent (for the others the column shows probe + scheduler engine)
      o=$(VERIF_NO_MIRI=1 timeout 1500 tools/with_patch.sh $p ./check $c quick 2>&1); code=$?
      case $name in c15_*) if [ $code -eq 0 ]; then o=$(timeout 1500 tools/with_patch.sh $p ./check $c quick 2>&1); code=$?; fi;; esac
    else
      o=$(timeout 1500 tools/with_patch.sh $p ./check $c quick 2>&1); code=$?
    fi
    case $code in 0) r="-";; 1) r="DET";; *) r="ERR";; esac
    row="$row $r |"
  done
  echo "$row" >> $out
done
cat $out
