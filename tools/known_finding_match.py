#!/usr/bin/env python3
"""exit 0 and print a KNOWN-FINDING line if the replay file matches an entry of
/verif/known_findings.json (same rule as the Rust driver: property and class equal, `match`
contained in the signature); exit 1 otherwise."""
import json, sys
r = json.load(open(sys.argv[1]))
try:
    k = json.load(open("/verif/known_findings.json")).get("findings", [])
except Exception:
    k = []
for f in k:
    if f.get("property") == r.get("property") and f.get("class") == r.get("class") and f.get("match", "\0") in r.get("signature", ""):
        print("KNOWN-FINDING: property=%s %s" % (r.get("property"), f.get("what", f.get("match"))))
        sys.exit(0)
sys.exit(1)
