#!/bin/bash
# tools/selftest_determinism.sh <runs>
# Determinism self-test: the same batch executed in several fresh processes (different
# HashMap RandomState keys), at worker counts 1 and 16, must give identical event-log digests.
# A divergence is a harness error (exit 2), never a VIOLATION.
set -u
N="${1:-300}"
BIN=/verif/target/release
fail() { echo "HARNESS-ERROR: determinism self-test failed: $*" >&2; exit 2; }
export VERIF_SEED="${VERIF_SEED:-20260101}"
# scheduler engine (C15 and threaded C04): same digests in 3 fresh processes
a=$($BIN/verifsim_mt selftest "$N") || fail "verifsim_mt selftest crashed"
b=$($BIN/verifsim_mt selftest "$N") || fail "verifsim_mt selftest crashed"
c=$($BIN/verifsim_mt selftest "$N") || fail "verifsim_mt selftest crashed"
[ "$a" = "$b" ] && [ "$b" = "$c" ] || fail "scheduler engine digests differ: $a / $b / $c"
# sequential engines: digests independent of the worker count and of the process
for id in C04 C08 C11; do
  d1=$(VERIF_WORKERS=1 $BIN/verifsim digest $id $((N*10))) || fail "$id digest crashed"
  d2=$(VERIF_WORKERS=16 $BIN/verifsim digest $id $((N*10))) || fail "$id digest crashed"
  d3=$(VERIF_WORKERS=5 $BIN/verifsim digest $id $((N*10))) || fail "$id digest crashed"
  [ "$d1" = "$d2" ] && [ "$d2" = "$d3" ] || fail "$id digests differ across worker counts: $d1 / $d2 / $d3"
done
echo "determinism self-test: ok ($N scheduler runs x 3 processes; $((N*10)) runs x 3 worker counts for C04 C08 C11)"
