#!/bin/bash
# tools/with_patch.sh <patch.diff> <command...>
# Applies a patch to /repo's working tree, runs the command, and ALWAYS restores the tree.
set -u
patch="$(readlink -f "$1")"; shift
if ! git -C /repo diff --quiet; then echo "with_patch: /repo has uncommitted changes, refusing" >&2; exit 2; fi
restore() { git -C /repo checkout -- . ; git -C /repo clean -fdq -- src tests 2>/dev/null; }
trap restore EXIT
git -C /repo apply "$patch" || { echo "with_patch: patch does not apply" >&2; exit 2; }
"$@"
code=$?
exit $code
