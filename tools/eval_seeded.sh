#!/bin/bash
# tools/eval_seeded.sh <mutation dir with patch.diff, demo.rs, meta.json> <name> [checks...]
# 1. confirms in a scratch worktree: patch applies, 58 tests pass with it, demo fails with it and
#    passes without it;  2. runs the quick checks against /repo with the patch applied (and undone).
# Writes <dir>/verdict.json. Scratch worktree + its build output are removed afterwards.
set -u
dir="$(readlink -f "$1")"; name="$2"; shift 2
checks=("$@"); [ ${#checks[@]} -eq 0 ] && checks=(C04 C08 C11 C15)
wt=/tmp/evx-confirm-$name
rm -rf "$wt"; git -C /repo worktree prune
git -C /repo worktree add -q --detach "$wt" HEAD || exit 2
cleanup() { git -C /repo worktree remove --force "$wt" 2>/dev/null; rm -rf "$wt"; git -C /repo worktree prune; }
trap cleanup EXIT
cd "$wt"
export CARGO_NET_OFFLINE=true CARGO_TARGET_DIR="$wt/target"
res() { echo "$1" >> "$dir/confirm.log"; }
: > "$dir/confirm.log"
if [ -n "${EVAL_CHECKS_ONLY:-}" ] && [ -f "$dir/confirm.env" ]; then
  . "$dir/confirm.env"
else
# demo on the clean tree
cp "$dir/demo.rs" tests/demo.rs
cargo test --offline --test demo > "$dir/demo_clean.log" 2>&1; demo_clean=$?
rm -f tests/demo.rs
git apply "$dir/patch.diff" || { res "patch does not apply"; echo '{"applies": false}' > "$dir/verdict.json"; exit 1; }
cargo test --offline --lib --tests > "$dir/tests_patched.log" 2>&1; tests_code=$?
passed=$(grep -E "^test result" "$dir/tests_patched.log" | sed -E 's/.* ([0-9]+) passed.*/\1/' | paste -sd+ | bc)
cp "$dir/demo.rs" tests/demo.rs
cargo test --offline --test demo > "$dir/demo_patched.log" 2>&1; demo_patched=$?
rm -f tests/demo.rs
git checkout -q -- . 
echo "demo_clean=$demo_clean tests_code=$tests_code passed=${passed:-0} demo_patched=$demo_patched" > "$dir/confirm.env"
fi
cd /verif; unset CARGO_TARGET_DIR
declare -A verdicts
# EVAL_CONFIRM_ONLY=1: confirmation only (can run in parallel for several changes); run the checks
# afterwards, one change at a time, with EVAL_CHECKS_ONLY=1 (they patch /repo itself)
[ -n "${EVAL_CONFIRM_ONLY:-}" ] && checks=()
for c in "${checks[@]}"; do
  out=$(env -u CARGO_TARGET_DIR timeout 1500 /verif/tools/with_patch.sh "$dir/patch.diff" ./check "$c" quick 2>&1); code=$?
  echo "$out" > "$dir/check_$c.log"
  verdicts[$c]=$code
done
python3 - "$dir" "$demo_clean" "$tests_code" "${passed:-0}" "$demo_patched" <<PY
import json,sys,glob,os
d,demo_clean,tests_code,passed,demo_patched=sys.argv[1:6]
v={"applies":True,"tests_pass_with_patch":tests_code=="0","tests_passed_count":int(passed),
   "demo_passes_on_clean_tree":demo_clean=="0","demo_fails_with_patch":demo_patched!="0","checks":{}}
for f in sorted(glob.glob(d+"/check_*.log")):
    c=os.path.basename(f)[6:-4]
    t=open(f).read()
    viol=[l for l in t.splitlines() if l.startswith("VIOLATION")]
    v["checks"][c]={"detected":bool(viol),"harness_error":"HARNESS-ERROR" in t,"first":(viol[0] if viol else None)}
json.dump(v,open(d+"/verdict.json","w"),indent=1)
print(json.dumps(v))
PY
