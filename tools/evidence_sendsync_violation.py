#!/usr/bin/env python3
"""Writes /verif/evidence/C15.json when the Send+Sync probe does not compile (violation found by
the type checker before any simulation could be built)."""
import json, os, re, sys, time
tier = sys.argv[1] if len(sys.argv) > 1 else "quick"
log = open("/verif/target/build-probe_sendsync.log").read()
types = ["Node", "Value", "EvalexprError", "Function", "Operator", "HashMapContext", "EmptyContext", "EmptyContextWithBuiltinFunctions"]
bad = sorted(set(re.findall(r"`([^`]+)` cannot be (?:sent|shared) between threads safely", log)))
seed = int(os.environ.get("VERIF_SEED", "20260101") or 20260101)
ev = {
  "property_id": "C15", "tier": tier, "seed": seed, "level": "exploration",
  "coverage": {
    "evaluations": len(types), "distinct_nontrivial": len(types),
    "rule": "compile-time probe: assert_send_sync::<T>() for the 8 public data types; each type is one case. The probe did not compile, so no simulation was run.",
    "samples": [{"type": t} for t in types],
    "send_sync_probe": "FAILED to compile",
    "offending": bad,
  },
  "assumptions": ["rustc's auto-trait inference"],
  "wall_s": 0.0, "violations": 1,
}
json.dump(ev, open("/verif/evidence/C15.json", "w"), indent=1)
