#!/usr/bin/env python3
"""Writes /verif/evidence/C15.json when one of the two compile-time probes gives the verdict
(violation found by the type checker before any simulation could be built):
  default      probe_sendsync does not compile: a public type is not Send + Sync
  overpromised probe_not_send does not compile because a type IS Send/Sync although its numeric
               types are not thread-safe"""
import json, os, re, sys
tier = sys.argv[1] if len(sys.argv) > 1 else "quick"
mode = sys.argv[2] if len(sys.argv) > 2 else "default"
seed = int(os.environ.get("VERIF_SEED", "20260101") or 20260101)
if mode == "overpromised":
    log = open("/verif/target/build-probe_not_send.log").read()
    types = ["Value", "Operator", "Node", "EvalexprError", "HashMapContext"]
    bad = sorted(set(re.findall(r"<((?:Value|Operator|Node|EvalexprError|HashMapContext)<Tagged>) as", log)))
    rule = ("compile-time probe: with a numeric type whose integer carries an Rc, none of the 5 generic public data types may be "
            "Send or Sync (10 negative assertions); the probe did not compile because at least one is, so no simulation was run.")
    cov = {"send_sync_negative_probe": "FAILED to compile (a type is Send/Sync although its numbers are not)", "offending": bad}
else:
    log = open("/verif/target/build-probe_sendsync.log").read()
    types = ["Node", "Value", "EvalexprError", "Function", "Operator", "HashMapContext", "EmptyContext", "EmptyContextWithBuiltinFunctions"]
    bad = sorted(set(re.findall(r"`([^`]+)` cannot be (?:sent|shared) between threads safely", log)))
    rule = "compile-time probe: assert_send_sync::<T>() for the 8 public data types; each type is one case. The probe did not compile, so no simulation was run."
    cov = {"send_sync_probe": "FAILED to compile", "offending": bad}
ev = {
  "property_id": "C15", "tier": tier, "seed": seed, "level": "exploration",
  "coverage": dict({
    "evaluations": len(types), "distinct_nontrivial": len(types),
    "rule": rule,
    "samples": [{"type": t} for t in types],
  }, **cov),
  "assumptions": ["rustc's auto-trait inference"],
  "wall_s": 0.0, "violations": 1,
}
json.dump(ev, open("/verif/evidence/C15.json", "w"), indent=1)
