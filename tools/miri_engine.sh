#!/bin/bash
# tools/miri_engine.sh <tier>            second engine of C15 (thorough tier)
# tools/miri_engine.sh replay <ws> <k>   re-run workload seed <ws> under Miri schedule seed <k>
# The C15 scenario with plain std::thread and no installed hook, interpreted by Miri with its own
# seeded scheduler (preempts at basic-block granularity, owns std locks/atomics, flags data races).
# stdout: JSON summary. exit 0 ok, 1 violation (writes /verif/replays/C15-miri.json), 2 harness error.
set -u
export CARGO_NET_OFFLINE=true
cd /verif/sim
SEED="${VERIF_SEED:-20260101}"
# two preemption rates: a high one reaches races between neighbouring instructions (torn pairs of
# atomics), a low one lets a thread run long enough to reach the other end of a lock-order cycle
RATES=(0.05 0.004)
run_miri() { # <flags> <workload seed> <rate> -> log on stdout, miri's status
  # evalexpr forbids unsafe code and the harness has none: the aliasing model and validity checks
  # are switched off (twice as many schedules per minute); data-race detection stays on
  MIRIFLAGS="$1 -Zmiri-preemption-rate=$3 -Zmiri-disable-stacked-borrows -Zmiri-disable-validation" cargo +nightly miri run --offline --bin verifsim_mt -- miri-scenario "$2" 2>&1
}
if [ "${1:-}" = "replay" ]; then
  run_miri "-Zmiri-seed=$3" "$2" "${4:-0.05}"
  exit $?
fi
tier="${1:-thorough}"
if [ "$tier" = "thorough" ]; then W="${VERIF_MIRI_WORKLOADS:-8}"; N="${VERIF_MIRI_SEEDS:-128}"; else W="${VERIF_MIRI_WORKLOADS:-3}"; N="${VERIF_MIRI_SEEDS:-32}"; fi
start=$(date +%s)
ok=0
# build once, then run the workloads PAR at a time (each interprets N schedule seeds in parallel)
(cd /verif/sim && cargo +nightly miri run --offline --bin verifsim_mt -- miri-noop > /verif/target/miri-build.log 2>&1) || { echo "{\"ran\": false, \"reason\": \"miri build failed, see /verif/target/miri-build.log\"}"; exit 2; }
PAR="${VERIF_MIRI_PAR:-3}"
rm -f /verif/target/miri-[0-9]*.log /verif/target/miri-[0-9]*.code
# units of work: (workload seed, rate index); each interprets N/2 schedule seeds
units=()
for i in $(seq 1 "$W"); do for r in 0 1; do units+=("$i:$r"); done; done
H=$(( (N + 1) / 2 ))
u=0
while [ $u -lt ${#units[@]} ]; do
  pids=()
  for j in $(seq 1 "$PAR"); do
    [ $u -lt ${#units[@]} ] || break
    i=${units[$u]%%:*}; r=${units[$u]##*:}
    ws=$(( (SEED % 1000000) * 100 + i ))
    lo=$(( r * H )); hi=$(( lo + H ))
    ( run_miri "-Zmiri-many-seeds=$lo..$hi" "$ws" "${RATES[$r]}" > /verif/target/miri-$ws-$r.log; echo $? > /verif/target/miri-$ws-$r.code ) &
    pids+=($!)
    u=$((u+1))
  done
  wait "${pids[@]}"
done
for unit in "${units[@]}"; do
  i=${unit%%:*}; r=${unit##*:}
  ws=$(( (SEED % 1000000) * 100 + i ))
  log=/verif/target/miri-$ws-$r.log
  rate=${RATES[$r]}
  code=$(cat /verif/target/miri-$ws-$r.code 2>/dev/null || echo 99)
  if [ "$code" -ne 0 ]; then
    failing=$(grep -o "FAILING SEED: [0-9]*" "$log" | grep -o "[0-9]*" | sort -n | tr '\n' ' ')
    if grep -qE "VIOLATION property=C15|Undefined Behavior|Data race detected|data race|deadlock" "$log"; then
      first=$(echo $failing | cut -d' ' -f1)
      python3 - "$ws" "$first" "$failing" "$log" "$rate" <<'PY'
import json,sys
ws,first,failing,log,rate=sys.argv[1:6]
text=open(log).read()
keep=[]
for l in text.splitlines():
    if ("VIOLATION" in l or "error" in l.lower() or "race" in l.lower() or "FAILING" in l) and l not in keep:
        keep.append(l[:600])
keep=keep[:20]
cls="data-race-or-ub" if ("Undefined Behavior" in text or "ata race" in text) else ("deadlock" if ("deadlock" in text and "VIOLATION property=C15" not in text) else "concurrent!=sequential")
json.dump({"property":"C15","engine":"miri","class":cls,"workload_seed":int(ws),"miri_seed":int(first or 0),
 "preemption_rate":float(rate),"failing_miri_seeds":[int(x) for x in failing.split()],"replay":"tools/miri_engine.sh replay %s %s %s"%(ws,first,rate),
 "signature":"miri|%s|family=%d"%(cls,int(ws)%4),"log_excerpt":keep,"minimised":False,
 "note":"Miri exposes no schedule to edit; the replay is (workload seed, -Zmiri-seed)"},
 open("/verif/replays/C15-miri.json","w"),indent=1)
PY
      echo "{\"ran\": true, \"violation\": true, \"workload_seed\": $ws, \"failing_miri_seeds\": \"$failing\"}"
      exit 1
    fi
    echo "{\"ran\": false, \"reason\": \"miri failed without a verdict, see $log\"}"
    exit 2
  fi
  ok=$((ok + $(grep -c "miri-scenario: ok" "$log")))
done
end=$(date +%s)
echo "{\"ran\": true, \"violation\": false, \"workloads\": $W, \"miri_seeds_per_workload\": $N, \"interpreted_runs_ok\": $ok, \"preemption_rates\": \"${RATES[*]}\", \"wall_s\": $((end-start)), \"engine\": \"cargo +nightly miri run, -Zmiri-many-seeds, plain std::thread, no hooks installed, stacked borrows and validation off, data-race detection on\"}"
exit 0
