#!/bin/bash
# placeholder until the Miri engine is wired in: reports "not run"
echo '{"ran": false, "reason": "miri engine not yet wired in"}'
exit 0
