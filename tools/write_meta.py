#!/usr/bin/env python3
"""tools/write_meta.py : (re)writes seeded/<id>/meta.json from agent_meta.json (what the sub-agent
said), verdict.json (my confirmation in a scratch worktree, tools/eval_seeded.sh) and the last
regression table seeded/RESULTS.md (tools/regress_seeded.sh)."""
import glob, json, os, re

root = "/verif/seeded"
rows = {}
if os.path.exists(root + "/RESULTS.md"):
    for line in open(root + "/RESULTS.md"):
        m = re.match(r"\| (C\d\d-\S+) \| .* \| (yes|NO|ERR\(\d+\)) \| (.*) \|$", line.strip())
        if m:
            rows[m.group(1)] = (m.group(2), m.group(3).strip())

for d in sorted(glob.glob(root + "/C*")):
    ident = os.path.basename(d)
    try:
        a = json.load(open(d + "/agent_meta.json"))
    except Exception:
        continue
    v = {}
    if os.path.exists(d + "/verdict.json"):
        v = json.load(open(d + "/verdict.json"))
    old = {}
    if os.path.exists(d + "/meta.json"):
        old = json.load(open(d + "/meta.json"))
    m = re.match(r"C\d\d-r(\d)", ident)
    rnd = int(m.group(1)) if m else 1
    detected_some = sorted(set(old.get("detected_by_quick_checks_at_some_point", []))
                           | {k for k, c in v.get("checks", {}).items() if c.get("detected")})
    final, first = rows.get(ident, (None, ""))
    if final == "yes" and a.get("property") not in detected_some:
        detected_some = sorted(set(detected_some) | {a.get("property")})
    meta = {
        "property": a.get("property"),
        "round": rnd,
        "title": a.get("title"),
        "mechanism": a.get("mechanism"),
        "needs_to_manifest": a.get("needs"),
        "origin": "independent sub-agent (given only the property text, the titles of earlier rounds' ideas, and a scratch worktree; nothing from /verif)",
        "confirmed_by_me": old.get("confirmed_by_me") or {
            "patch_applies_to_repo_HEAD": v.get("applies"),
            "existing_58_tests_pass_with_patch": v.get("tests_pass_with_patch"),
            "tests_passed_count": v.get("tests_passed_count"),
            "demo_passes_on_unmodified_tree": v.get("demo_passes_on_clean_tree"),
            "demo_fails_with_patch": v.get("demo_fails_with_patch"),
            "how": "tools/eval_seeded.sh: scratch worktree of /repo under /tmp (removed afterwards): cargo test --offline --test demo on the clean tree, git apply patch.diff, cargo test --offline --lib --tests, cargo test --offline --test demo; then tools/with_patch.sh patch.diff ./check <ID> quick against /repo (patch undone afterwards); final state re-run by tools/regress_seeded.sh",
        },
        "detected_by_quick_checks_at_some_point": detected_some,
        "target_quick_check_detects_in_final_regression": (final == "yes") if final else None,
        "first_report_of_target_check": first,
    }
    json.dump(meta, open(d + "/meta.json", "w"), indent=1)
print("meta.json written for", len(glob.glob(root + "/C*/meta.json")), "seeded changes")
