#!/bin/bash
# tools/regress_seeded.sh [dir...] : re-runs the quick check of its own property against every
# seeded change (patch applied to /repo and undone) and rewrites seeded/RESULTS.md.
set -u
cd /verif
dirs=("$@"); [ ${#dirs[@]} -eq 0 ] && dirs=(seeded/C*)
out="${REGRESS_OUT:-seeded/RESULTS.md}"
{
echo "# Seeded changes (from independent sub-agents) vs. the quick check of their property"
echo
echo "| id | title | needs | detected | first report |"
echo "|---|---|---|---|---|"
} > $out
miss=0
for d in "${dirs[@]}"; do
  id=$(basename $d); prop=${id%%-*}
  if [ "$prop" = "C15" ]; then
    # the probe and the scheduler engine first; the Miri engine (minutes) only if they stay silent
    o=$(VERIF_NO_MIRI=1 timeout 2400 tools/with_patch.sh $d/patch.diff ./check $prop quick 2>&1); code=$?
    if [ $code -eq 0 ]; then o=$(timeout 2400 tools/with_patch.sh $d/patch.diff ./check $prop quick 2>&1); code=$?; fi
  else
    o=$(timeout 2400 tools/with_patch.sh $d/patch.diff ./check $prop quick 2>&1); code=$?
  fi
  first=$(echo "$o" | grep -m1 -A1 "^VIOLATION" | tail -1 | cut -c1-160 | tr '|' '/')
  case $code in 1) r="yes";; 0) r="NO"; miss=$((miss+1));; *) r="ERR($code)"; miss=$((miss+1));; esac
  python3 - "$d" "$r" "$first" >> $out <<'PY'
import json,sys
d,r,first=sys.argv[1:4]
m=json.load(open(d+'/agent_meta.json'))
def c(s): return (s or '').replace('|','/').replace('\n',' ')[:150]
print("| %s | %s | %s | %s | %s |" % (d.split('/')[-1], c(m.get('title')), c(m.get('needs')), r, c(first)))
PY
  echo "$id $r"
done
echo; echo "missed: $miss" | tee -a $out
