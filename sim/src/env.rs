//! The simulated environment of an evaluation: recording user functions, the `SimContext`
//! wrapper (the fault-injection seam: every variable read, function call and variable write of an
//! evaluation crosses it and may fail according to the fault plan), and the runner that executes a
//! tree against the real library and returns the observable outcome.

use crate::canon::{cr, cv, E, R, V};
use crate::json::Json;
use crate::rng::hash_str;
use evalexpr::{
    Context, ContextWithMutableFunctions, ContextWithMutableVariables, DefaultNumericTypes,
    EmptyContext, EmptyContextWithBuiltinFunctions, EvalexprError, Function, HashMapContext,
    IterateVariablesContext, Node, Value,
};
use std::panic::{catch_unwind, AssertUnwindSafe};
use std::sync::{Arc, Mutex};

pub const FN_NAMES: [&str; 6] = ["f", "g", "h", "k", "n", "r"];
/// builtin names that a context may shadow with a user function (user functions win)
pub const SHADOW_NAMES: [&str; 3] = ["len", "str::from", "math::abs"];
pub const VAR_NAMES: [&str; 3] = ["a", "b", "c"];
/// further variable names used now and then (case variants, longer names)
/// (case variants, a dotted and a namespaced name, a builtin's name, two spellings of a number)
pub const EXTRA_VAR_NAMES: [&str; 13] = [
    "A", "B", "C", "ab", "a_1", "a.b", "max", "ns::x", "x1", "x01",
    // identifiers next to the tokenizer's literal syntax
    "_1", "_", "e1",
];
/// names only the API can bind (an expression cannot spell them): surrounding whitespace, empty
pub const API_ONLY_NAMES: [&str; 4] = [" a", "a ", "b\n", ""];
/// an identifier longer than 64 bytes that is never bound (variable) / never registered (function)
pub const LONG_UNBOUND_NAME: &str =
    "a_rather_long_identifier_that_nobody_ever_bound_to_anything_at_all_0123456789";
pub const UNBOUND_NAME: &str = "zz";
pub const UNKNOWN_FN: &str = "nofn";
/// argument the harness uses when it probes functions (the stateful sentinel only reads on it)
pub const PROBE_ARG: i64 = 41;

/// Deterministic, history-free result of user function `name` applied to `arg`.
pub fn sentinel(name: &str, arg: &V) -> V {
    match name {
        "f" => arg.clone(),
        "g" => Value::Int((hash_str(&cv(arg)) % 7) as i64),
        "h" => Value::Boolean(hash_str(&cv(arg)) & 1 == 1),
        "k" => Value::Tuple(vec![Value::String("k".into()), arg.clone()]),
        // re-entrant: evaluates an expression of its own through the string-level read-only API
        // (a spreadsheet-style helper), then returns a value derived from it and the argument
        "r" => {
            let inner = evalexpr::eval_with_context(
                "len(\"a\") + 1",
                &EmptyContextWithBuiltinFunctions::<DefaultNumericTypes>::default(),
            );
            // ... and one that fails, which the function handles itself
            let failed = evalexpr::eval_with_context(
                "1 / 0",
                &EmptyContextWithBuiltinFunctions::<DefaultNumericTypes>::default(),
            );
            if failed.is_ok() {
                return Value::String("nested 1 / 0 did not fail".into());
            }
            match inner {
                Ok(Value::Int(2)) => Value::Tuple(vec![Value::String("r".into()), arg.clone()]),
                other => Value::String(format!("re-entrant evaluation gave {:?}", other)),
            }
        },
        // a variable name: lets programs compute assignment targets
        "n" => Value::String(VAR_NAMES[(hash_str(&cv(arg)) % 3) as usize].to_string()),
        other => Value::Tuple(vec![Value::String(other.to_string()), arg.clone()]),
    }
}

/// The error the environment fails with at seam call `index`. Mostly a custom message; sometimes
/// an error that looks like one of the library's own type errors (a user function may return any
/// error: entry points must pass it through unchanged, not reinterpret it).
pub fn injected_error(index: usize) -> E {
    match index % 6 {
        1 => EvalexprError::expected_float(Value::Int(index as i64)),
        3 => EvalexprError::expected_int(Value::Float(index as f64 + 0.5)),
        4 => EvalexprError::expected_number(Value::String(format!("injected@{}", index))),
        5 => EvalexprError::VariableIdentifierNotFound(format!("injected@{}", index)),
        _ => EvalexprError::CustomMessage(format!("injected@{}", index)),
    }
}

/// The error a *function call* fails with at seam call `index`: like `injected_error`, plus the
/// errors a real user function typically returns when it dislikes its argument
/// (`arg.as_tuple()?`, `arg.as_string()?`, ...) and a not-found error of its own (a dispatcher
/// that does not know the plugin it was asked for).
pub fn injected_call_error(index: usize, arg: &V) -> E {
    match index % 10 {
        2 => EvalexprError::expected_tuple(arg.clone()),
        6 => EvalexprError::expected_string(arg.clone()),
        7 => EvalexprError::expected_boolean(arg.clone()),
        8 => EvalexprError::FunctionIdentifierNotFound(format!("injected@{}", index)),
        // a function that itself tried to assign through a shared reference to some context
        9 => EvalexprError::ContextNotMutable,
        _ => injected_error(index),
    }
}

/// Message prefix of a panic injected at a function call (a user function that panics for this
/// call instead of returning an error). The unwind passes through the library's frames; whatever
/// was done before stays done, nothing after it happens, and every entry point lets it through.
pub const INJECTED_PANIC: &str = "injected panic@";

/// Whether the failed function call at seam index `index` with argument `arg` is a panic.
pub fn call_fault_panics(index: usize, arg: &V) -> bool {
    (index as u64).wrapping_add(hash_str(&cv(arg))) % 4 == 3
}

/// Fails the function call at `index`: an error, or (if `panics`) possibly a panic. Must be called
/// with the recorder released (a panic while it is locked would poison it).
pub fn fail_call(index: usize, arg: &V, panics: bool) -> E {
    if panics && call_fault_panics(index, arg) {
        panic!("{}{}", INJECTED_PANIC, index);
    }
    injected_call_error(index, arg)
}

#[derive(Clone, Copy, Debug, PartialEq, Eq, Hash)]
pub enum CtxKind {
    /// `SimContext`: all reads, calls and writes are recorded and may be failed.
    Sim,
    /// The bare `HashMapContext`: only user-function calls are recorded and may be failed.
    Bare,
    /// A context with the default (refusing) `set_value`; reads and calls recorded.
    NoStore,
    /// `EmptyContext` (read-only evaluation only).
    Empty,
    /// `EmptyContextWithBuiltinFunctions` (read-only evaluation only).
    EmptyBuiltins,
}

impl CtxKind {
    pub fn name(self) -> &'static str {
        match self {
            CtxKind::Sim => "sim",
            CtxKind::Bare => "bare",
            CtxKind::NoStore => "nostore",
            CtxKind::Empty => "empty",
            CtxKind::EmptyBuiltins => "empty_builtins",
        }
    }
    pub fn from_name(s: &str) -> Option<CtxKind> {
        [
            CtxKind::Sim,
            CtxKind::Bare,
            CtxKind::NoStore,
            CtxKind::Empty,
            CtxKind::EmptyBuiltins,
        ]
        .into_iter()
        .find(|k| k.name() == s)
    }
    /// Does the seam record reads and writes of variables?
    pub fn records_vars(self) -> bool {
        matches!(self, CtxKind::Sim | CtxKind::NoStore)
    }
    /// Does the seam see every function call (not only those of registered user functions)?
    pub fn records_all_calls(self) -> bool {
        matches!(self, CtxKind::Sim | CtxKind::NoStore)
    }
    pub fn has_user_state(self) -> bool {
        matches!(self, CtxKind::Sim | CtxKind::Bare | CtxKind::NoStore)
    }
}

#[derive(Clone, Debug, PartialEq, Eq, Hash)]
pub enum Ev {
    Get(String),
    Call(String, String),
    Set(String, String),
}

impl Ev {
    pub fn render(&self) -> String {
        match self {
            Ev::Get(n) => format!("Get({})", n),
            Ev::Call(n, a) => format!("Call({}, {})", n, a),
            Ev::Set(n, v) => format!("Set({}, {})", n, v),
        }
    }
    pub fn is_effect(&self) -> bool {
        !matches!(self, Ev::Get(_))
    }
}

#[derive(Clone, Copy, Debug, PartialEq, Eq, Hash, PartialOrd, Ord)]
pub enum FaultKind {
    /// a user function / `call_function` returned an injected error
    CallError,
    /// `set_value` refused the write with an injected error
    SetError,
    /// `get_value` returned `None` although the variable may be bound
    GetNone,
}

impl FaultKind {
    pub fn name(self) -> &'static str {
        match self {
            FaultKind::CallError => "userfn_error",
            FaultKind::SetError => "set_value_error",
            FaultKind::GetNone => "get_value_none",
        }
    }
}

/// The fault plan is a sorted list of seam-call indices (0-based position in the recorded
/// history) at which the environment fails.
#[derive(Default, Debug)]
pub struct Recorder {
    pub log: Vec<Ev>,
    pub faults: Vec<usize>,
    pub fired: Vec<(usize, FaultKind)>,
    /// closures registered in a bare `HashMapContext` record their own calls
    pub closures_record: bool,
    /// recording switched off while the harness probes the context
    pub enabled: bool,
    /// the evaluation made more than SEAM_CALL_BUDGET seam calls
    pub over_budget: bool,
    /// a failed function call may be a panic of the user function instead of an error
    pub panic_faults: bool,
}

/// No evaluation of a generated program comes near this many seam calls; a library that needs more
/// (an error path that re-evaluates sub-expressions, nested) is stopped by a panic from the seam,
/// which the harness catches and reports - instead of running out of memory or time.
pub const SEAM_CALL_BUDGET: usize = 50_000;

impl Recorder {
    /// Records the event; returns `Some(index)` if the fault plan fails this seam call.
    #[inline]
    fn record(&mut self, ev: Ev, kind: FaultKind) -> Option<usize> {
        let idx = self.log.len();
        if idx >= SEAM_CALL_BUDGET {
            self.over_budget = true;
            return None;
        }
        self.log.push(ev);
        if self.faults.binary_search(&idx).is_ok() {
            self.fired.push((idx, kind));
            Some(idx)
        } else {
            None
        }
    }
}

pub type Rec = Arc<Mutex<Recorder>>;

/// Total string bytes in a value.
pub fn value_size(v: &V) -> usize {
    match v {
        Value::String(s) => s.len(),
        Value::Tuple(t) => t.iter().map(value_size).sum::<usize>() + t.len(),
        _ => 1,
    }
}

/// No generated program builds a value near this size; a library that does (effects repeated on
/// an error path, doubling a string each time) is stopped by a panic from the seam before the
/// process runs out of memory.
pub const VALUE_SIZE_BUDGET: usize = 4 << 20;

#[inline]
fn stop_if_huge(v: &V) {
    if value_size(v) > VALUE_SIZE_BUDGET {
        panic!("value size budget exceeded: a value of more than {} bytes crossed the context seam", VALUE_SIZE_BUDGET);
    }
}

/// Called by the seam after it released the recorder: unwinds out of a runaway evaluation.
#[inline]
fn stop_if_over_budget(rec: &Rec) {
    // (only while an evaluation is being recorded: the harness probes the context afterwards)
    let over = rec.lock().map(|r| r.over_budget && r.enabled).unwrap_or(false);
    if over {
        panic!("seam call budget exceeded: more than {} context calls in one evaluation", SEAM_CALL_BUDGET);
    }
}

/// A user function registered under `name` with the sentinel behaviour `behaviour`.
pub fn recording_function(
    name: String,
    behaviour: &'static str,
    rec: Rec,
) -> Function<DefaultNumericTypes> {
    Function::new(move |arg: &V| {
        stop_if_huge(arg);
        let fault = {
            let mut r = rec.lock().unwrap();
            if r.enabled && r.closures_record {
                let panics = r.panic_faults;
                r.record(Ev::Call(name.clone(), cv(arg)), FaultKind::CallError).map(|idx| (idx, panics))
            } else {
                None
            }
        };
        if let Some((idx, panics)) = fault {
            return Err(fail_call(idx, arg, panics));
        }
        stop_if_over_budget(&rec);
        Ok(sentinel(behaviour, arg))
    })
}

/// State of a stateful user function, copied (not shared) when the closure is cloned - which is
/// what cloning a `Function`, and hence a context, must do.
pub struct CloneByValueCounter(pub std::sync::atomic::AtomicI64);

impl Clone for CloneByValueCounter {
    fn clone(&self) -> Self {
        CloneByValueCounter(std::sync::atomic::AtomicI64::new(
            self.0.load(std::sync::atomic::Ordering::SeqCst),
        ))
    }
}

impl CloneByValueCounter {
    fn peek(&self) -> i64 {
        self.0.load(std::sync::atomic::Ordering::SeqCst)
    }
    fn bump(&self) -> i64 {
        self.0.fetch_add(1, std::sync::atomic::Ordering::SeqCst)
    }
}

/// The stateful sentinel `c`: returns its call count and advances it (a call with the probe
/// argument only reads). Records and fails like the other user functions when a recorder is given.
pub fn counter_function(name: String, rec: Option<Rec>) -> Function<DefaultNumericTypes> {
    let state = CloneByValueCounter(std::sync::atomic::AtomicI64::new(0));
    Function::new(move |arg: &V| {
        if let Some(rec) = &rec {
            let fault = {
                let mut r = rec.lock().unwrap();
                if r.enabled && r.closures_record {
                    let panics = r.panic_faults;
                    r.record(Ev::Call(name.clone(), cv(arg)), FaultKind::CallError).map(|idx| (idx, panics))
                } else {
                    None
                }
            };
            if let Some((idx, panics)) = fault {
                return Err(fail_call(idx, arg, panics));
            }
        }
        if let Some(rec) = &rec {
            stop_if_over_budget(rec);
        }
        // (method calls, so that the closure captures the whole struct and clones it by value)
        let n = if *arg == Value::Int(PROBE_ARG) {
            state.peek()
        } else {
            state.bump()
        };
        Ok(Value::Int(n))
    })
}

pub fn static_fn_name(name: &str) -> Option<&'static str> {
    FN_NAMES
        .iter()
        .chain(SHADOW_NAMES.iter())
        .copied()
        .find(|n| *n == name)
}

/// Initial state of the context of a run.
#[derive(Clone, Debug, PartialEq)]
pub struct Setup {
    pub vars: Vec<(String, V)>,
    pub fns: Vec<String>,
    pub builtins_disabled: bool,
    /// the context is not fresh: this many user-function calls have already failed on it (no
    /// observable state changes; a long-lived context must behave like a fresh one)
    pub aging: usize,
}

impl Setup {
    pub fn to_json(&self) -> Json {
        Json::obj()
            .with(
                "vars",
                Json::Arr(
                    self.vars
                        .iter()
                        .map(|(n, v)| {
                            Json::obj()
                                .with("name", Json::s(n.clone()))
                                .with("value", crate::canon::value_to_json(v))
                        })
                        .collect(),
                ),
            )
            .with("fns", Json::arr_of_str(self.fns.iter().cloned()))
            .with("builtins_disabled", Json::Bool(self.builtins_disabled))
            .with("failed_calls_before", Json::u(self.aging as u64))
    }

    pub fn from_json(j: &Json) -> Result<Setup, String> {
        let mut vars = Vec::new();
        for v in j.arr_field("vars")? {
            vars.push((
                v.str_field("name")?.to_string(),
                crate::canon::value_from_json(v.field("value")?)?,
            ));
        }
        let mut fns = Vec::new();
        for f in j.arr_field("fns")? {
            fns.push(f.as_str().ok_or("bad fn name")?.to_string());
        }
        Ok(Setup {
            vars,
            fns,
            builtins_disabled: j.bool_field("builtins_disabled")?,
            aging: j.get("failed_calls_before").and_then(|a| a.as_u64()).unwrap_or(0) as usize,
        })
    }

    /// Builds the real context (variables through `set_value`, recording user functions).
    pub fn build(&self, rec: &Rec) -> HashMapContext<DefaultNumericTypes> {
        let mut ctx = HashMapContext::<DefaultNumericTypes>::new();
        for (n, v) in &self.vars {
            ctx.set_value(n.clone(), v.clone())
                .expect("setup: set_value on a fresh name");
        }
        for f in &self.fns {
            if let Some(name) = static_fn_name(f) {
                ctx.set_function(
                    name.to_string(),
                    recording_function(name.to_string(), name, rec.clone()),
                )
                    .expect("setup: set_function");
            }
        }
        ctx.set_builtin_functions_disabled(self.builtins_disabled)
            .expect("setup: builtin switch");
        if self.aging > 0 {
            if let Some(f) = self.fns.first() {
                // every one of these calls fails with an injected error; nothing is recorded
                let saved = {
                    let mut r = rec.lock().unwrap();
                    let saved = (
                        std::mem::take(&mut r.log),
                        std::mem::take(&mut r.faults),
                        r.enabled,
                        r.closures_record,
                        r.panic_faults,
                    );
                    r.panic_faults = false;
                    r.faults = (0..self.aging).collect();
                    r.enabled = true;
                    r.closures_record = true;
                    saved
                };
                let arg = Value::Int(1);
                for _ in 0..self.aging {
                    let _ = ctx.call_function(f, &arg);
                }
                let mut r = rec.lock().unwrap();
                r.log = saved.0;
                r.faults = saved.1;
                r.enabled = saved.2;
                r.closures_record = saved.3;
                r.panic_faults = saved.4;
                r.fired.clear();
            }
        }
        ctx
    }
}

/// The fault-injection seam around a real `HashMapContext`.
pub struct SimContext {
    pub inner: HashMapContext<DefaultNumericTypes>,
    pub rec: Rec,
}

impl Context for SimContext {
    type NumericTypes = DefaultNumericTypes;

    fn get_value(&self, identifier: &str) -> Option<&V> {
        {
            let mut r = self.rec.lock().unwrap();
            if r.enabled
                && r.record(Ev::Get(identifier.to_string()), FaultKind::GetNone)
                    .is_some()
            {
                return None;
            }
        }
        stop_if_over_budget(&self.rec);
        self.inner.get_value(identifier)
    }

    fn call_function(&self, identifier: &str, argument: &V) -> R {
        stop_if_huge(argument);
        let fault = {
            let mut r = self.rec.lock().unwrap();
            if r.enabled {
                let panics = r.panic_faults;
                r.record(Ev::Call(identifier.to_string(), cv(argument)), FaultKind::CallError)
                    .map(|idx| (idx, panics))
            } else {
                None
            }
        };
        if let Some((idx, panics)) = fault {
            return Err(fail_call(idx, argument, panics));
        }
        stop_if_over_budget(&self.rec);
        self.inner.call_function(identifier, argument)
    }

    fn are_builtin_functions_disabled(&self) -> bool {
        self.inner.are_builtin_functions_disabled()
    }

    fn set_builtin_functions_disabled(&mut self, disabled: bool) -> Result<(), E> {
        self.inner.set_builtin_functions_disabled(disabled)
    }
}

impl ContextWithMutableVariables for SimContext {
    fn set_value(&mut self, identifier: String, value: V) -> Result<(), E> {
        stop_if_huge(&value);
        {
            let mut r = self.rec.lock().unwrap();
            if r.enabled {
                if let Some(idx) =
                    r.record(Ev::Set(identifier.clone(), cv(&value)), FaultKind::SetError)
                {
                    return Err(injected_error(idx));
                }
            }
        }
        stop_if_over_budget(&self.rec);
        self.inner.set_value(identifier, value)
    }
}

/// Same seam for reads and calls, but variable storage is refused by the *default*
/// `ContextWithMutableVariables::set_value` of the library.
pub struct NoStoreContext(pub SimContext);

impl Context for NoStoreContext {
    type NumericTypes = DefaultNumericTypes;
    fn get_value(&self, identifier: &str) -> Option<&V> {
        self.0.get_value(identifier)
    }
    fn call_function(&self, identifier: &str, argument: &V) -> R {
        self.0.call_function(identifier, argument)
    }
    fn are_builtin_functions_disabled(&self) -> bool {
        self.0.are_builtin_functions_disabled()
    }
    fn set_builtin_functions_disabled(&mut self, disabled: bool) -> Result<(), E> {
        self.0.set_builtin_functions_disabled(disabled)
    }
}

impl ContextWithMutableVariables for NoStoreContext {}

#[derive(Clone, Copy, Debug, PartialEq, Eq, Hash)]
pub enum Path {
    Mut,
    Imm,
}

#[derive(Clone, Copy, Debug, PartialEq, Eq, Hash)]
pub enum Entry {
    /// `Node::eval_with_context[_mut]` on the precompiled tree
    Tree,
    /// `eval_with_context[_mut](source, ..)` (tokenizer and tree builder in the loop)
    Str,
}

/// Everything observable about one evaluation.
#[derive(Clone, Debug, PartialEq, Eq)]
pub struct Outcome {
    /// canonical rendering of the result, or `PANIC: ..`
    pub result: String,
    pub log: Vec<Ev>,
    /// sorted (name, canonical value) listing of the context after the run
    pub vars: Vec<(String, String)>,
    /// `call_function` probes of all function names after the run + builtin switch
    pub fns: Vec<String>,
    pub fired: Vec<(usize, FaultKind)>,
    pub panicked: bool,
}

pub fn snapshot_vars(ctx: &HashMapContext<DefaultNumericTypes>) -> Vec<(String, String)> {
    let mut v: Vec<(String, String)> = ctx.iter_variables().map(|(n, v)| (n, cv(&v))).collect();
    v.sort();
    v
}

pub fn snapshot_fns(ctx: &HashMapContext<DefaultNumericTypes>) -> Vec<String> {
    let probe = Value::Int(PROBE_ARG);
    let mut out = Vec::new();
    // builtin names are probed too: `call_function` of a context never resolves builtins
    for n in FN_NAMES
        .iter()
        .chain([UNKNOWN_FN, "typeof", "max"].iter())
        .chain(SHADOW_NAMES.iter())
    {
        out.push(format!("{}:{}", n, cr(&ctx.call_function(n, &probe))));
    }
    out.push(format!(
        "builtins_disabled:{}",
        ctx.are_builtin_functions_disabled()
    ));
    out
}

thread_local! {
    static LAST_PANIC: std::cell::RefCell<String> = std::cell::RefCell::new(String::new());
}

/// Installs a silent panic hook that remembers the message per thread.
pub fn install_quiet_panic_hook() {
    std::panic::set_hook(Box::new(|info| {
        let msg = if let Some(s) = info.payload().downcast_ref::<&str>() {
            s.to_string()
        } else if let Some(s) = info.payload().downcast_ref::<String>() {
            s.clone()
        } else {
            "non-string panic payload".to_string()
        };
        let loc = info
            .location()
            .map(|l| format!(" at {}:{}", l.file(), l.line()))
            .unwrap_or_default();
        // (try_with: the hook may run while the thread's thread-locals are being destroyed)
        if std::env::var_os("VERIF_LOUD_PANICS").is_some() {
            eprintln!("panic: {}{}\n{}", msg, loc, std::backtrace::Backtrace::force_capture());
        }
        let _ = LAST_PANIC.try_with(|p| *p.borrow_mut() = format!("{}{}", msg, loc));
    }));
}

pub fn last_panic() -> String {
    LAST_PANIC
        .try_with(|p| p.borrow().clone())
        .unwrap_or_else(|_| "panic during thread teardown".to_string())
}

/// Runs `f` and renders a panic as a result string.
pub fn guarded<F: FnOnce() -> R>(f: F) -> (String, bool) {
    match catch_unwind(AssertUnwindSafe(f)) {
        Ok(r) => (cr(&r), false),
        Err(_) => {
            let msg = last_panic();
            if msg.starts_with(INJECTED_PANIC) {
                // the environment's own doing, not the library's: an outcome like any other
                let msg = msg.split(" at ").next().unwrap_or("").to_string();
                (format!("PANIC: {}", msg), false)
            } else {
                (format!("PANIC: {}", msg), true)
            }
        },
    }
}

pub const TYPED_ENTRIES: [&str; 8] = [
    "value", "int", "float", "number", "boolean", "string", "tuple", "empty",
];

/// What a typed entry point must return for an untyped result `r` (the typed entries are views
/// of the one evaluator: same effects, result projected).
pub fn project_typed(r: R, typed: usize) -> R {
    let v = match r {
        Ok(v) => v,
        Err(e) => return Err(e),
    };
    match (typed, v) {
        (0, v) => Ok(v),
        (1, Value::Int(i)) => Ok(Value::Int(i)),
        (1, v) => Err(EvalexprError::expected_int(v)),
        (2, Value::Float(f)) => Ok(Value::Float(f)),
        (2, v) => Err(EvalexprError::expected_float(v)),
        (3, Value::Int(i)) => Ok(Value::Float(i as f64)),
        (3, Value::Float(f)) => Ok(Value::Float(f)),
        (3, v) => Err(EvalexprError::expected_number(v)),
        (4, Value::Boolean(b)) => Ok(Value::Boolean(b)),
        (4, v) => Err(EvalexprError::expected_boolean(v)),
        (5, Value::String(s)) => Ok(Value::String(s)),
        (5, v) => Err(EvalexprError::expected_string(v)),
        (6, Value::Tuple(t)) => Ok(Value::Tuple(t)),
        (6, v) => Err(EvalexprError::expected_tuple(v)),
        (_, Value::Empty) => Ok(Value::Empty),
        (_, v) => Err(EvalexprError::expected_empty(v)),
    }
}

/// Mutable evaluation through the chosen entry point; typed results are wrapped back into values.
pub fn eval_entry_mut<C>(tree: &Node, src: Option<&str>, ctx: &mut C, entry: Entry, typed: usize) -> R
where
    C: ContextWithMutableVariables + Context<NumericTypes = DefaultNumericTypes>,
{
    match (entry, src) {
        (Entry::Str, Some(s)) => match typed {
            0 => evalexpr::eval_with_context_mut(s, ctx),
            1 => evalexpr::eval_int_with_context_mut(s, ctx).map(Value::Int),
            2 => evalexpr::eval_float_with_context_mut(s, ctx).map(Value::Float),
            3 => evalexpr::eval_number_with_context_mut(s, ctx).map(Value::Float),
            4 => evalexpr::eval_boolean_with_context_mut(s, ctx).map(Value::Boolean),
            5 => evalexpr::eval_string_with_context_mut(s, ctx).map(Value::String),
            6 => evalexpr::eval_tuple_with_context_mut(s, ctx).map(Value::Tuple),
            _ => evalexpr::eval_empty_with_context_mut(s, ctx).map(|_| Value::Empty),
        },
        _ => match typed {
            0 => tree.eval_with_context_mut(ctx),
            1 => tree.eval_int_with_context_mut(ctx).map(Value::Int),
            2 => tree.eval_float_with_context_mut(ctx).map(Value::Float),
            3 => tree.eval_number_with_context_mut(ctx).map(Value::Float),
            4 => tree.eval_boolean_with_context_mut(ctx).map(Value::Boolean),
            5 => tree.eval_string_with_context_mut(ctx).map(Value::String),
            6 => tree.eval_tuple_with_context_mut(ctx).map(Value::Tuple),
            _ => tree.eval_empty_with_context_mut(ctx).map(|_| Value::Empty),
        },
    }
}

/// Read-only evaluation through the chosen entry point.
pub fn eval_entry_imm<C>(tree: &Node, src: Option<&str>, ctx: &C, entry: Entry, typed: usize) -> R
where
    C: Context<NumericTypes = DefaultNumericTypes>,
{
    match (entry, src) {
        (Entry::Str, Some(s)) => match typed {
            0 => evalexpr::eval_with_context(s, ctx),
            1 => evalexpr::eval_int_with_context(s, ctx).map(Value::Int),
            2 => evalexpr::eval_float_with_context(s, ctx).map(Value::Float),
            3 => evalexpr::eval_number_with_context(s, ctx).map(Value::Float),
            4 => evalexpr::eval_boolean_with_context(s, ctx).map(Value::Boolean),
            5 => evalexpr::eval_string_with_context(s, ctx).map(Value::String),
            6 => evalexpr::eval_tuple_with_context(s, ctx).map(Value::Tuple),
            _ => evalexpr::eval_empty_with_context(s, ctx).map(|_| Value::Empty),
        },
        _ => match typed {
            0 => tree.eval_with_context(ctx),
            1 => tree.eval_int_with_context(ctx).map(Value::Int),
            2 => tree.eval_float_with_context(ctx).map(Value::Float),
            3 => tree.eval_number_with_context(ctx).map(Value::Float),
            4 => tree.eval_boolean_with_context(ctx).map(Value::Boolean),
            5 => tree.eval_string_with_context(ctx).map(Value::String),
            6 => tree.eval_tuple_with_context(ctx).map(Value::Tuple),
            _ => tree.eval_empty_with_context(ctx).map(|_| Value::Empty),
        },
    }
}

/// Executes one evaluation against the real library.
pub fn run_real(
    tree: &Node,
    src: Option<&str>,
    setup: &Setup,
    kind: CtxKind,
    path: Path,
    entry: Entry,
    typed: usize,
    faults: &[usize],
) -> Outcome {
    let rec: Rec = Arc::new(Mutex::new(Recorder {
        log: Vec::new(),
        faults: faults.to_vec(),
        fired: Vec::new(),
        closures_record: kind == CtxKind::Bare,
        enabled: false,
        over_budget: false,
        panic_faults: true,
    }));
    let entry = if src.is_none() { Entry::Tree } else { entry };
    let enable = |on: bool| rec.lock().unwrap().enabled = on;

    let (result, panicked, vars, fns) = match kind {
        CtxKind::Sim => {
            let mut ctx = SimContext {
                inner: setup.build(&rec),
                rec: rec.clone(),
            };
            enable(true);
            let (result, panicked) = guarded(|| match path {
                Path::Mut => eval_entry_mut(tree, src, &mut ctx, entry, typed),
                Path::Imm => eval_entry_imm(tree, src, &ctx, entry, typed),
            });
            enable(false);
            (
                result,
                panicked,
                snapshot_vars(&ctx.inner),
                snapshot_fns(&ctx.inner),
            )
        },
        CtxKind::NoStore => {
            let mut ctx = NoStoreContext(SimContext {
                inner: setup.build(&rec),
                rec: rec.clone(),
            });
            enable(true);
            let (result, panicked) = guarded(|| match path {
                Path::Mut => eval_entry_mut(tree, src, &mut ctx, entry, typed),
                Path::Imm => eval_entry_imm(tree, src, &ctx, entry, typed),
            });
            enable(false);
            (
                result,
                panicked,
                snapshot_vars(&ctx.0.inner),
                snapshot_fns(&ctx.0.inner),
            )
        },
        CtxKind::Bare => {
            let mut ctx = setup.build(&rec);
            enable(true);
            let (result, panicked) = guarded(|| match path {
                Path::Mut => eval_entry_mut(tree, src, &mut ctx, entry, typed),
                Path::Imm => eval_entry_imm(tree, src, &ctx, entry, typed),
            });
            enable(false);
            (result, panicked, snapshot_vars(&ctx), snapshot_fns(&ctx))
        },
        CtxKind::Empty => {
            let ctx = EmptyContext::<DefaultNumericTypes>::default();
            let (result, panicked) = guarded(|| eval_entry_imm(tree, src, &ctx, entry, typed));
            let vars: Vec<(String, String)> =
                ctx.iter_variables().map(|(n, v)| (n, cv(&v))).collect();
            (
                result,
                panicked,
                vars,
                vec![format!(
                    "builtins_disabled:{}",
                    ctx.are_builtin_functions_disabled()
                )],
            )
        },
        CtxKind::EmptyBuiltins => {
            let ctx = EmptyContextWithBuiltinFunctions::<DefaultNumericTypes>::default();
            let (result, panicked) = guarded(|| eval_entry_imm(tree, src, &ctx, entry, typed));
            let vars: Vec<(String, String)> =
                ctx.iter_variables().map(|(n, v)| (n, cv(&v))).collect();
            (
                result,
                panicked,
                vars,
                vec![format!(
                    "builtins_disabled:{}",
                    ctx.are_builtin_functions_disabled()
                )],
            )
        },
    };
    let mut r = rec.lock().unwrap();
    Outcome {
        result,
        log: std::mem::take(&mut r.log),
        vars,
        fns,
        fired: std::mem::take(&mut r.fired),
        panicked,
    }
}

/// Snapshot of the initial state (what an evaluation that must not mutate has to leave behind).
pub fn initial_snapshot(setup: &Setup, kind: CtxKind) -> (Vec<(String, String)>, Vec<String>) {
    match kind {
        CtxKind::Empty => (vec![], vec!["builtins_disabled:true".to_string()]),
        CtxKind::EmptyBuiltins => (vec![], vec!["builtins_disabled:false".to_string()]),
        _ => {
            let rec: Rec = Arc::new(Mutex::new(Recorder::default()));
            let ctx = setup.build(&rec);
            (snapshot_vars(&ctx), snapshot_fns(&ctx))
        },
    }
}
