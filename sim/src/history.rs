//! C04: multi-actor operation histories on `HashMapContext` against an abstract map model.
//! Actors own one real context each; operations include failing assignments, clears, forks
//! (clone-and-continue), overwrites by a clone, resets. After every step the return value and the
//! complete observable state of EVERY actor are compared with the model.

use crate::canon::{cr, cv, expected_type_error, tag, value_from_json, value_to_json, E, R, V};
use crate::env::{
    injected_error, recording_function, sentinel, snapshot_vars, CtxKind, Entry, Ev, Rec, Recorder,
    UNBOUND_NAME, UNKNOWN_FN,
};
use crate::gen::{any_value, ty_of, Gen, GenCfg, Ty, ALL_TY};
use crate::json::Json;
use crate::prog::{AOp, Bin, Expr, ALL_AOP};
use crate::refint::{ref_eval, Delegate, RefEnv, RefErr};
use crate::rng::{Fnv, Rng};
use crate::seam::Form;
use crate::stats::Stats;
use evalexpr::{
    build_operator_tree, Context, ContextWithMutableFunctions, ContextWithMutableVariables,
    DefaultNumericTypes, EvalexprError, HashMapContext, IterateVariablesContext, Node, Value,
};
use std::collections::BTreeMap;
use std::panic::{catch_unwind, AssertUnwindSafe};
use std::sync::{Arc, Mutex};

pub type Ctx = HashMapContext<DefaultNumericTypes>;

pub const H_VARS: [&str; 3] = ["a", "b", "f"];
/// function names of the histories; `len` coincides with a builtin (user functions must win)
pub const H_FNS: [&str; 3] = ["f", "g", "len"];
/// sentinel behaviours a function name can be bound to; `c` is stateful (a counter whose state is
/// copied when the context is cloned)
pub const BEHAVIOURS: [&str; 7] = ["f", "g", "h", "k", "n", "c", "r"];
pub const MAX_ACTORS: usize = 4;

pub fn static_behaviour(b: &str) -> &'static str {
    BEHAVIOURS.iter().copied().find(|x| *x == b).unwrap_or("k")
}

#[derive(Clone, Debug, PartialEq)]
pub enum Op {
    SetValue { name: String, value: V },
    EvalMut { program: Expr, form: Form, entry: Entry, faults: Vec<usize> },
    EvalImm { program: Expr, form: Form, entry: Entry, faults: Vec<usize> },
    GetValue { name: String },
    IterVars,
    IterNames,
    ClearVars,
    ClearFns,
    Clear,
    SetFunction { name: String, behaviour: String },
    CallFunction { name: String, arg: V, fault: bool },
    SetBuiltinsDisabled(bool),
    /// a new actor starts from a clone of this actor's context; both continue
    Fork,
    /// this actor's context is replaced by a clone of another actor's (`a = b.clone()` or
    /// `a.clone_from(&b)`)
    Overwrite { from: usize, clone_from: bool },
    /// this actor's context is replaced by `HashMapContext::new()`
    Reset,
    /// this actor's context is replaced by one built with the `context_map!` macro
    /// (`a` = Int 7, `b` = Float 1.5, `f` = Boolean true as variables; function `g` = identity)
    ResetMacro,
    /// this actor's context is replaced by `HashMapContext::default()`
    ResetDefault,
    /// `count` variables `v0..v<count-1>` bound through the API (a large context: capacity-
    /// dependent behaviour of the maps)
    BulkSet { count: usize },
    /// `count` calls of function `name`, every one failing with an injected error (a long-lived
    /// context with many failed calls behind it); then the context must work as before
    BulkFailedCalls { name: String, count: usize },
    /// `count` assignments of a `kib` KiB string to `name` through the API (rejected with the
    /// expected-type error whenever `name` holds a non-string: nothing may accumulate)
    BigStrings { name: String, kib: usize, count: usize },
    /// metamorphic: on two throw-away clones, `x op= (e)` and `x = x op (e)` must agree
    OpAssignEquiv { name: String, op: AOp, rhs: Expr },
    /// one of the typed `Node::eval_<type>_with_context[_mut]` entries on an assembled tree: the
    /// same evaluation (same effects on the context), the result projected to the type
    EvalTyped { program: Expr, typed: usize, mutable: bool },
}

impl Op {
    pub fn kind(&self) -> String {
        match self {
            Op::SetValue { value, .. } => format!("set_value:{}", tag(value)),
            Op::EvalMut { program, .. } => match program {
                Expr::Assign(op, _, _) => format!("eval_mut:{}", op.sym()),
                _ => "eval_mut:expr".to_string(),
            },
            Op::EvalImm { program, .. } => match program {
                Expr::Assign(..) => "eval_imm:assign".to_string(),
                _ => "eval_imm:expr".to_string(),
            },
            Op::GetValue { .. } => "get_value".into(),
            Op::IterVars => "iter_variables".into(),
            Op::IterNames => "iter_variable_names".into(),
            Op::ClearVars => "clear_variables".into(),
            Op::ClearFns => "clear_functions".into(),
            Op::Clear => "clear".into(),
            Op::SetFunction { .. } => "set_function".into(),
            Op::CallFunction { .. } => "call_function".into(),
            Op::SetBuiltinsDisabled(_) => "set_builtin_functions_disabled".into(),
            Op::BulkSet { .. } => "bulk_set".into(),
            Op::BulkFailedCalls { .. } => "bulk_failed_calls".into(),
            Op::BigStrings { .. } => "big_strings".into(),
            Op::Fork => "clone_fork".into(),
            Op::Overwrite { .. } => "clone_overwrite".into(),
            Op::Reset => "reset_new".into(),
            Op::ResetMacro => "reset_context_map_macro".into(),
            Op::ResetDefault => "reset_default".into(),
            Op::OpAssignEquiv { op, .. } => format!("opassign_equiv:{}", op.sym()),
            Op::EvalTyped { typed, mutable, .. } => format!(
                "eval_typed{}:{}",
                if *mutable { "_mut" } else { "" },
                crate::env::TYPED_ENTRIES[*typed % 8]
            ),
        }
    }

    pub fn weight(&self) -> usize {
        match self {
            Op::EvalMut { program, faults, .. } | Op::EvalImm { program, faults, .. } => {
                3 + program.size() * 2 + faults.len()
            },
            Op::OpAssignEquiv { rhs, .. } => 4 + rhs.size() * 2,
            Op::EvalTyped { program, .. } => 3 + program.size() * 2,
            Op::SetValue { .. } | Op::CallFunction { .. } => 2,
            _ => 1,
        }
    }

    pub fn render(&self) -> String {
        match self {
            Op::SetValue { name, value } => format!("set_value({}, {})", name, cv(value)),
            Op::EvalMut { program, form, entry, faults } => format!(
                "eval_with_context_mut[{}{}](`{}`){}",
                form.name(),
                if *entry == Entry::Str { ",string" } else { "" },
                program.render(),
                if faults.is_empty() { String::new() } else { format!(" faults={:?}", faults) }
            ),
            Op::EvalImm { program, form, entry, faults } => format!(
                "eval_with_context[{}{}](`{}`){}",
                form.name(),
                if *entry == Entry::Str { ",string" } else { "" },
                program.render(),
                if faults.is_empty() { String::new() } else { format!(" faults={:?}", faults) }
            ),
            Op::GetValue { name } => format!("get_value({})", name),
            Op::IterVars => "iter_variables()".into(),
            Op::IterNames => "iter_variable_names()".into(),
            Op::ClearVars => "clear_variables()".into(),
            Op::ClearFns => "clear_functions()".into(),
            Op::Clear => "clear()".into(),
            Op::SetFunction { name, behaviour } => format!("set_function({}, sentinel-{})", name, behaviour),
            Op::CallFunction { name, arg, fault } => format!(
                "call_function({}, {}){}",
                name,
                cv(arg),
                if *fault { " [injected error]" } else { "" }
            ),
            Op::SetBuiltinsDisabled(b) => format!("set_builtin_functions_disabled({})", b),
            Op::BulkSet { count } => format!("set_value(v0..v{}, Int)", count),
            Op::BulkFailedCalls { name, count } => format!("{} x call_function({}, 1) [injected error]", count, name),
            Op::BigStrings { name, kib, count } => format!("{} x set_value({}, <{} KiB string>)", count, name, kib),
            Op::Fork => "fork: new actor = clone()".into(),
            Op::Overwrite { from, clone_from } => format!(
                "overwrite with clone of actor {}{}",
                from,
                if *clone_from { " (clone_from)" } else { "" }
            ),
            Op::Reset => "reset to HashMapContext::new()".into(),
            Op::ResetMacro => "reset to context_map!{a => int 7, b => float 1.5, f => true, g => Function::new(identity)}".into(),
            Op::ResetDefault => "reset to HashMapContext::default()".into(),
            Op::OpAssignEquiv { name, op, rhs } => format!(
                "check `{} {} ({})` == `{} = {} {} ({})` on two clones",
                name,
                op.sym(),
                rhs.render(),
                name,
                name,
                op.plain().map(|b| b.sym()).unwrap_or("?"),
                rhs.render()
            ),
            Op::EvalTyped { program, typed, mutable } => format!(
                "Node::eval_{}_with_context{}(`{}`)",
                crate::env::TYPED_ENTRIES[*typed % 8],
                if *mutable { "_mut" } else { "" },
                program.render()
            ),
        }
    }

    pub fn to_json(&self) -> Json {
        let faults_json = |f: &Vec<usize>| Json::Arr(f.iter().map(|k| Json::u(*k as u64)).collect());
        let entry_s = |e: &Entry| Json::s(if *e == Entry::Str { "string" } else { "tree" });
        match self {
            Op::SetValue { name, value } => Json::obj()
                .with("op", Json::s("set_value"))
                .with("name", Json::s(name.clone()))
                .with("value", value_to_json(value)),
            Op::EvalMut { program, form, entry, faults } => Json::obj()
                .with("op", Json::s("eval_mut"))
                .with("source", Json::s(program.render()))
                .with("form", Json::s(form.name()))
                .with("entry", entry_s(entry))
                .with("faults", faults_json(faults))
                .with("program", program.to_json()),
            Op::EvalImm { program, form, entry, faults } => Json::obj()
                .with("op", Json::s("eval_imm"))
                .with("source", Json::s(program.render()))
                .with("form", Json::s(form.name()))
                .with("entry", entry_s(entry))
                .with("faults", faults_json(faults))
                .with("program", program.to_json()),
            Op::GetValue { name } => Json::obj().with("op", Json::s("get_value")).with("name", Json::s(name.clone())),
            Op::IterVars => Json::obj().with("op", Json::s("iter_variables")),
            Op::IterNames => Json::obj().with("op", Json::s("iter_variable_names")),
            Op::ClearVars => Json::obj().with("op", Json::s("clear_variables")),
            Op::ClearFns => Json::obj().with("op", Json::s("clear_functions")),
            Op::Clear => Json::obj().with("op", Json::s("clear")),
            Op::SetFunction { name, behaviour } => Json::obj()
                .with("op", Json::s("set_function"))
                .with("name", Json::s(name.clone()))
                .with("behaviour", Json::s(behaviour.clone())),
            Op::CallFunction { name, arg, fault } => Json::obj()
                .with("op", Json::s("call_function"))
                .with("name", Json::s(name.clone()))
                .with("arg", value_to_json(arg))
                .with("fault", Json::Bool(*fault)),
            Op::SetBuiltinsDisabled(b) => Json::obj()
                .with("op", Json::s("set_builtin_functions_disabled"))
                .with("disabled", Json::Bool(*b)),
            Op::BulkSet { count } => Json::obj().with("op", Json::s("bulk_set")).with("count", Json::u(*count as u64)),
            Op::BulkFailedCalls { name, count } => Json::obj()
                .with("op", Json::s("bulk_failed_calls"))
                .with("name", Json::s(name.clone()))
                .with("count", Json::u(*count as u64)),
            Op::BigStrings { name, kib, count } => Json::obj()
                .with("op", Json::s("big_strings"))
                .with("name", Json::s(name.clone()))
                .with("kib", Json::u(*kib as u64))
                .with("count", Json::u(*count as u64)),
            Op::Fork => Json::obj().with("op", Json::s("fork")),
            Op::Overwrite { from, clone_from } => Json::obj()
                .with("op", Json::s("overwrite"))
                .with("from", Json::u(*from as u64))
                .with("clone_from", Json::Bool(*clone_from)),
            Op::Reset => Json::obj().with("op", Json::s("reset")),
            Op::ResetMacro => Json::obj().with("op", Json::s("reset_macro")),
            Op::ResetDefault => Json::obj().with("op", Json::s("reset_default")),
            Op::OpAssignEquiv { name, op, rhs } => Json::obj()
                .with("op", Json::s("opassign_equiv"))
                .with("name", Json::s(name.clone()))
                .with("operator", Json::s(op.sym()))
                .with("source", Json::s(rhs.render()))
                .with("rhs", rhs.to_json()),
            Op::EvalTyped { program, typed, mutable } => Json::obj()
                .with("op", Json::s("eval_typed"))
                .with("source", Json::s(program.render()))
                .with("entry_point", Json::s(crate::env::TYPED_ENTRIES[*typed % 8]))
                .with("mutable", Json::Bool(*mutable))
                .with("program", program.to_json()),
        }
    }

    pub fn from_json(j: &Json) -> Result<Op, String> {
        let faults = |j: &Json| -> Result<Vec<usize>, String> {
            let mut v = Vec::new();
            for f in j.arr_field("faults")? {
                v.push(f.as_u64().ok_or("bad fault")? as usize);
            }
            Ok(v)
        };
        let form = |j: &Json| -> Result<Form, String> {
            Form::from_name(j.str_field("form")?).ok_or_else(|| "unknown form".to_string())
        };
        let entry = |j: &Json| -> Result<Entry, String> {
            Ok(if j.str_field("entry")? == "string" { Entry::Str } else { Entry::Tree })
        };
        Ok(match j.str_field("op")? {
            "set_value" => Op::SetValue {
                name: j.str_field("name")?.to_string(),
                value: value_from_json(j.field("value")?)?,
            },
            "eval_mut" => Op::EvalMut {
                program: Expr::from_json(j.field("program")?)?,
                form: form(j)?,
                entry: entry(j)?,
                faults: faults(j)?,
            },
            "eval_imm" => Op::EvalImm {
                program: Expr::from_json(j.field("program")?)?,
                form: form(j)?,
                entry: entry(j)?,
                faults: faults(j)?,
            },
            "get_value" => Op::GetValue { name: j.str_field("name")?.to_string() },
            "iter_variables" => Op::IterVars,
            "iter_variable_names" => Op::IterNames,
            "clear_variables" => Op::ClearVars,
            "clear_functions" => Op::ClearFns,
            "clear" => Op::Clear,
            "set_function" => Op::SetFunction {
                name: j.str_field("name")?.to_string(),
                behaviour: j.str_field("behaviour")?.to_string(),
            },
            "call_function" => Op::CallFunction {
                name: j.str_field("name")?.to_string(),
                arg: value_from_json(j.field("arg")?)?,
                fault: j.bool_field("fault")?,
            },
            "set_builtin_functions_disabled" => Op::SetBuiltinsDisabled(j.bool_field("disabled")?),
            "bulk_set" => Op::BulkSet { count: j.u64_field("count")? as usize },
            "bulk_failed_calls" => Op::BulkFailedCalls {
                name: j.str_field("name")?.to_string(),
                count: j.u64_field("count")? as usize,
            },
            "big_strings" => Op::BigStrings {
                name: j.str_field("name")?.to_string(),
                kib: j.u64_field("kib")? as usize,
                count: j.u64_field("count")? as usize,
            },
            "fork" => Op::Fork,
            "overwrite" => Op::Overwrite {
                from: j.u64_field("from")? as usize,
                clone_from: j.get("clone_from").and_then(|b| b.as_bool()).unwrap_or(false),
            },
            "reset" => Op::Reset,
            "reset_macro" => Op::ResetMacro,
            "reset_default" => Op::ResetDefault,
            "opassign_equiv" => Op::OpAssignEquiv {
                name: j.str_field("name")?.to_string(),
                op: ALL_AOP
                    .into_iter()
                    .find(|o| o.sym() == j.str_field("operator").unwrap_or(""))
                    .ok_or("unknown operator")?,
                rhs: Expr::from_json(j.field("rhs")?)?,
            },
            "eval_typed" => Op::EvalTyped {
                program: Expr::from_json(j.field("program")?)?,
                typed: crate::env::TYPED_ENTRIES
                    .iter()
                    .position(|e| *e == j.str_field("entry_point").unwrap_or(""))
                    .ok_or("unknown entry point")?,
                mutable: j.get("mutable").and_then(|b| b.as_bool()).unwrap_or(true),
            },
            other => return Err(format!("unknown op {}", other)),
        })
    }
}

#[derive(Clone, Debug, PartialEq)]
pub struct Step {
    pub actor: usize,
    pub op: Op,
}

#[derive(Clone, Debug, PartialEq, Default)]
pub struct History {
    pub steps: Vec<Step>,
    /// the complete state of every actor is observed after every `observe_every`-th step and at
    /// the end (0 or 1: after every step). Observation itself exercises the listing code, so some
    /// histories deliberately observe rarely (state that a listing would repair stays stale).
    pub observe_every: usize,
}

impl History {
    pub fn to_json(&self) -> Json {
        let mut v: Vec<Json> = vec![Json::obj()
            .with("op", Json::s("config"))
            .with("observe_every", Json::u(self.observe_every as u64))];
        v.extend(
            self.steps
                .iter()
                .map(|s| s.op.to_json().with("actor", Json::u(s.actor as u64))),
        );
        Json::Arr(v)
    }
    pub fn from_json(j: &Json) -> Result<History, String> {
        let mut steps = Vec::new();
        let mut observe_every = 1;
        for s in j.as_arr().ok_or("history is not an array")? {
            if s.get("op").and_then(|o| o.as_str()) == Some("config") {
                observe_every = s.get("observe_every").and_then(|x| x.as_u64()).unwrap_or(1) as usize;
                continue;
            }
            steps.push(Step {
                actor: s.u64_field("actor")? as usize,
                op: Op::from_json(s)?,
            });
        }
        Ok(History { steps, observe_every })
    }
    pub fn hash(&self) -> u64 {
        let mut h = Fnv::new();
        h.str(&self.to_json().to_compact());
        h.finish()
    }
    pub fn weight(&self) -> usize {
        self.steps.iter().map(|s| s.op.weight()).sum()
    }
    pub fn render(&self) -> Vec<String> {
        self.steps
            .iter()
            .enumerate()
            .map(|(i, s)| format!("#{} actor{}: {}", i, s.actor, s.op.render()))
            .collect()
    }
}

// ------------------------------------------------------------------------------ the model

#[derive(Clone, Debug, Default, PartialEq)]
pub struct Model {
    pub vars: BTreeMap<String, V>,
    /// name -> sentinel behaviour
    pub fns: BTreeMap<String, String>,
    pub disabled: bool,
    /// call counts of the functions bound to the stateful behaviour `c`
    pub counters: BTreeMap<String, i64>,
}

/// Complete observable state of a context (real or model), canonical.
#[derive(Clone, Debug, PartialEq, Eq)]
pub struct Observation {
    pub lookups: Vec<String>,
    pub listing: Vec<(String, String)>,
    pub names: Vec<String>,
    pub listing_raw_len: usize,
    pub names_raw_len: usize,
    pub fn_probes: Vec<String>,
    pub disabled: bool,
}

impl Observation {
    /// Only the components in which the two observations differ (expected, actual).
    pub fn diff(&self, other: &Observation) -> (String, String) {
        let mut e = Vec::new();
        let mut a = Vec::new();
        if self.lookups != other.lookups {
            e.push(format!("get_value: [{}]", self.lookups.join(", ")));
            a.push(format!("get_value: [{}]", other.lookups.join(", ")));
        }
        if self.listing != other.listing || self.listing_raw_len != other.listing_raw_len {
            e.push(format!("iter_variables: {:?} (len {})", self.listing, self.listing_raw_len));
            a.push(format!("iter_variables: {:?} (len {})", other.listing, other.listing_raw_len));
        }
        if self.names != other.names || self.names_raw_len != other.names_raw_len {
            e.push(format!("iter_variable_names: {:?} (len {})", self.names, self.names_raw_len));
            a.push(format!("iter_variable_names: {:?} (len {})", other.names, other.names_raw_len));
        }
        if self.fn_probes != other.fn_probes {
            e.push(format!("call_function probes: [{}]", self.fn_probes.join(", ")));
            a.push(format!("call_function probes: [{}]", other.fn_probes.join(", ")));
        }
        if self.disabled != other.disabled {
            e.push(format!("are_builtin_functions_disabled: {}", self.disabled));
            a.push(format!("are_builtin_functions_disabled: {}", other.disabled));
        }
        (e.join("; "), a.join("; "))
    }

    pub fn render(&self) -> String {
        let l: Vec<String> = self.listing.iter().map(|(n, v)| format!("{}={}", n, v)).collect();
        format!(
            "lookups=[{}] iter_variables={{{}}}(len {}) iter_variable_names=[{}](len {}) fns=[{}] builtins_disabled={}",
            self.lookups.join(", "),
            l.join(", "),
            self.listing_raw_len,
            self.names.join(", "),
            self.names_raw_len,
            self.fn_probes.join(", "),
            self.disabled
        )
    }
}

fn lookup_names() -> Vec<&'static str> {
    let mut v: Vec<&'static str> = H_VARS.to_vec();
    v.push("g");
    v.push(UNBOUND_NAME);
    v.extend(crate::env::EXTRA_VAR_NAMES.iter().copied());
    v.extend(crate::env::API_ONLY_NAMES.iter().copied());
    v.push("F");
    v
}

fn probe_fn_names() -> Vec<&'static str> {
    let mut v: Vec<&'static str> = H_FNS.to_vec();
    v.push("a");
    v.push(UNKNOWN_FN);
    // builtin names: `call_function` of a context never resolves builtins
    v.push("len");
    v.push("typeof");
    v
}

pub fn observe_model(m: &Model) -> Observation {
    let probe = Value::Int(crate::env::PROBE_ARG);
    Observation {
        lookups: lookup_names()
            .iter()
            .map(|n| match m.vars.get(*n) {
                Some(v) => format!("{}=Some({})", n, cv(v)),
                None => format!("{}=None", n),
            })
            .collect(),
        listing: m.vars.iter().map(|(n, v)| (n.clone(), cv(v))).collect(),
        names: m.vars.keys().cloned().collect(),
        listing_raw_len: m.vars.len(),
        names_raw_len: m.vars.len(),
        fn_probes: probe_fn_names()
            .iter()
            .map(|n| {
                let r: R = match m.fns.get(*n) {
                    Some(b) if b == "c" => Ok(Value::Int(m.counters.get(*n).copied().unwrap_or(0))),
                    Some(b) => Ok(sentinel(b, &probe)),
                    None => Err(EvalexprError::FunctionIdentifierNotFound(n.to_string())),
                };
                format!("{}:{}", n, cr(&r))
            })
            .collect(),
        disabled: m.disabled,
    }
}

pub fn observe_real(ctx: &Ctx) -> Observation {
    let probe = Value::Int(crate::env::PROBE_ARG);
    let raw: Vec<(String, V)> = ctx.iter_variables().collect();
    let raw_names: Vec<String> = ctx.iter_variable_names().collect();
    let mut listing: Vec<(String, String)> = raw.iter().map(|(n, v)| (n.clone(), cv(v))).collect();
    listing.sort();
    let mut names = raw_names.clone();
    names.sort();
    Observation {
        lookups: lookup_names()
            .iter()
            .map(|n| match ctx.get_value(n) {
                Some(v) => format!("{}=Some({})", n, cv(v)),
                None => format!("{}=None", n),
            })
            .collect(),
        listing,
        names,
        listing_raw_len: raw.len(),
        names_raw_len: raw_names.len(),
        fn_probes: probe_fn_names()
            .iter()
            .map(|n| format!("{}:{}", n, cr(&ctx.call_function(n, &probe))))
            .collect(),
        disabled: ctx.are_builtin_functions_disabled(),
    }
}

/// Abstract state id: type tag (or unbound) per variable name, which function names are bound,
/// the builtin switch.
pub fn abstract_state(m: &Model) -> u32 {
    let mut id: u32 = 0;
    for n in H_VARS {
        let t = match m.vars.get(n) {
            None => 0,
            Some(v) => 1 + ALL_TY.iter().position(|t| *t == ty_of(v)).unwrap() as u32,
        };
        id = id * 7 + t;
    }
    for f in H_FNS {
        id = id * 2 + m.fns.contains_key(f) as u32;
    }
    id * 2 + m.disabled as u32
}

// ------------------------------------------------------------------------------ execution

pub fn new_recorder() -> Rec {
    Arc::new(Mutex::new(Recorder {
        log: Vec::new(),
        faults: Vec::new(),
        fired: Vec::new(),
        closures_record: true,
        enabled: false,
        over_budget: false,
        panic_faults: false,
    }))
}

fn arm(rec: Option<&Rec>, faults: &[usize]) {
    let rec = match rec {
        Some(r) => r,
        None => return,
    };
    let mut r = rec.lock().unwrap();
    r.log.clear();
    r.fired.clear();
    r.over_budget = false;
    r.faults = faults.to_vec();
    r.enabled = true;
}

fn disarm(rec: Option<&Rec>) -> Option<Vec<Ev>> {
    let rec = rec?;
    let mut r = rec.lock().unwrap();
    r.enabled = false;
    Some(std::mem::take(&mut r.log))
}

fn build_tree(program: &Expr, form: Form) -> Result<(Node, Option<String>), String> {
    match form {
        Form::Assembled { wrap } => Ok((program.assemble(wrap), None)),
        Form::Parsed | Form::ParsedLoose => {
            let src = form.source(program);
            match build_operator_tree::<DefaultNumericTypes>(&src) {
                Ok(t) => Ok((t, Some(src))),
                Err(e) => Err(format!("{:?}", e)),
            }
        },
    }
}

fn guard<F: FnOnce() -> String>(f: F) -> String {
    match catch_unwind(AssertUnwindSafe(f)) {
        Ok(s) => s,
        Err(_) => format!("PANIC: {}", crate::env::last_panic()),
    }
}

fn render_log(log: Option<&[Ev]>) -> String {
    match log {
        Some(log) => {
            let v: Vec<String> = log.iter().map(|e| e.render()).collect();
            format!("calls=[{}]", v.join(", "))
        },
        // threaded configuration: user functions are pure sentinels, calls are not recorded
        None => "calls=<unrecorded>".to_string(),
    }
}

/// Applies a single-context operation to the real context. Returns (canonical result, call log).
/// Multi-actor operations (Fork, Overwrite, Reset) are handled by the executor.
pub fn apply_real(ctx: &mut Ctx, op: &Op, rec: Option<&Rec>) -> String {
    match op {
        Op::SetValue { name, value } => guard(|| {
            match ctx.set_value(name.clone(), value.clone()) {
                Ok(()) => "Ok(())".to_string(),
                Err(e) => format!("Err({})", crate::canon::ce(&e)),
            }
        }),
        Op::EvalMut { program, form, entry, faults } => {
            let (tree, src) = match build_tree(program, *form) {
                Ok(x) => x,
                Err(e) => return format!("PARSE-REJECTED: {}", e),
            };
            arm(rec, faults);
            let r = guard(|| {
                let r = match (entry, &src) {
                    (Entry::Str, Some(s)) => evalexpr::eval_with_context_mut(s, ctx),
                    _ => tree.eval_with_context_mut(ctx),
                };
                cr(&r)
            });
            let log = disarm(rec);
            format!("{} {}", r, render_log(log.as_deref()))
        },
        Op::EvalImm { program, form, entry, faults } => {
            let (tree, src) = match build_tree(program, *form) {
                Ok(x) => x,
                Err(e) => return format!("PARSE-REJECTED: {}", e),
            };
            arm(rec, faults);
            let r = guard(|| {
                let r = match (entry, &src) {
                    (Entry::Str, Some(s)) => evalexpr::eval_with_context(s, &*ctx),
                    _ => tree.eval_with_context(&*ctx),
                };
                cr(&r)
            });
            let log = disarm(rec);
            format!("{} {}", r, render_log(log.as_deref()))
        },
        Op::BulkSet { count } => guard(|| {
            let mut errors = 0;
            for i in 0..*count {
                if ctx.set_value(format!("v{}", i), Value::Int(i as i64)).is_err() {
                    errors += 1;
                }
            }
            format!("errors={}", errors)
        }),
        Op::BulkFailedCalls { name, count } => {
            let all: Vec<usize> = (0..*count).collect();
            arm(rec, &all);
            let arg = Value::Int(1);
            let r = guard(|| {
                let mut out: Vec<String> = Vec::new();
                for _ in 0..*count {
                    let s = cr(&ctx.call_function(name, &arg));
                    if out.last() != Some(&s) {
                        out.push(s);
                    }
                }
                out.join(" | ")
            });
            let _ = disarm(rec);
            r
        },
        Op::BigStrings { name, kib, count } => guard(|| {
            let big = "x".repeat(kib * 1024);
            let mut out: Vec<String> = Vec::new();
            for _ in 0..*count {
                let s = match ctx.set_value(name.clone(), Value::String(big.clone())) {
                    Ok(()) => "Ok".to_string(),
                    Err(e) => crate::canon::ce(&e).chars().take(24).collect::<String>(),
                };
                if out.last() != Some(&s) {
                    out.push(s);
                }
            }
            // whatever happened, a small string variable can still be created and overwritten
            let probe = "zz_text".to_string();
            let a = ctx.set_value(probe.clone(), Value::String("p".into())).is_ok();
            let b = ctx.set_value(probe.clone(), Value::String("q".into())).is_ok();
            format!("{} then small string ok={} {}", out.join(" | "), a, b)
        }),
        Op::GetValue { name } => guard(|| match ctx.get_value(name) {
            Some(v) => format!("Some({})", cv(v)),
            None => "None".to_string(),
        }),
        Op::IterVars => guard(|| {
            // sorted by name, like the model's map
            let mut pairs: Vec<(String, String)> =
                ctx.iter_variables().map(|(n, v)| (n, cv(&v))).collect();
            pairs.sort();
            let v: Vec<String> = pairs.iter().map(|(n, v)| format!("{}={}", n, v)).collect();
            format!("[{}]", v.join(", "))
        }),
        Op::IterNames => guard(|| {
            let mut v: Vec<String> = ctx.iter_variable_names().collect();
            v.sort();
            format!("[{}]", v.join(", "))
        }),
        Op::ClearVars => guard(|| {
            ctx.clear_variables();
            "()".to_string()
        }),
        Op::ClearFns => guard(|| {
            ctx.clear_functions();
            "()".to_string()
        }),
        Op::Clear => guard(|| {
            ctx.clear();
            "()".to_string()
        }),
        Op::SetFunction { name, behaviour } => guard(|| {
            let f = match rec {
                _ if behaviour == "c" => crate::env::counter_function(name.clone(), rec.cloned()),
                Some(rec) => {
                    recording_function(name.clone(), static_behaviour(behaviour), rec.clone())
                },
                None => {
                    let b = static_behaviour(behaviour);
                    evalexpr::Function::new(move |arg: &V| Ok(sentinel(b, arg)))
                },
            };
            match ctx.set_function(name.clone(), f) {
                Ok(()) => "Ok(())".to_string(),
                Err(e) => format!("Err({})", crate::canon::ce(&e)),
            }
        }),
        Op::CallFunction { name, arg, fault } => {
            arm(rec, if *fault { &[0] } else { &[] });
            let r = guard(|| cr(&ctx.call_function(name, arg)));
            let log = disarm(rec);
            format!("{} {}", r, render_log(log.as_deref()))
        },
        Op::SetBuiltinsDisabled(b) => guard(|| match ctx.set_builtin_functions_disabled(*b) {
            Ok(()) => "Ok(())".to_string(),
            Err(e) => format!("Err({})", crate::canon::ce(&e)),
        }),
        Op::OpAssignEquiv { name, op, rhs } => {
            // two throw-away clones; the actor's own context is not touched
            let compound = Expr::Assign(*op, name.clone(), Box::new(rhs.clone()));
            let plain = Expr::Assign(
                AOp::Assign,
                name.clone(),
                Box::new(Expr::Bin(
                    op.plain().unwrap_or(Bin::Add),
                    Box::new(Expr::Read(name.clone())),
                    Box::new(rhs.clone()),
                )),
            );
            guard(|| {
                let mut c1 = ctx.clone();
                let mut c2 = ctx.clone();
                let r1 = compound.assemble(true).eval_with_context_mut(&mut c1);
                let r2 = plain.assemble(true).eval_with_context_mut(&mut c2);
                let s1 = format!("{} vars={:?}", cr(&r1), snapshot_vars(&c1));
                let s2 = format!("{} vars={:?}", cr(&r2), snapshot_vars(&c2));
                if s1 != s2 {
                    return format!("DIFFERENT: op-assign gives {} but plain form gives {}", s1, s2);
                }
                // the same from source text, with the assignment as a tuple element, a chain
                // element, and the last tuple element
                if rhs.is_renderable() {
                    let seven = Expr::Lit(Value::Int(7));
                    let shapes: [(Expr, Expr); 3] = [
                        (
                            Expr::Tuple(vec![compound.clone(), seven.clone()]),
                            Expr::Tuple(vec![plain.clone(), seven.clone()]),
                        ),
                        (
                            Expr::Chain(vec![compound.clone(), Expr::Read(name.clone())]),
                            Expr::Chain(vec![plain.clone(), Expr::Read(name.clone())]),
                        ),
                        (
                            Expr::Tuple(vec![seven.clone(), compound.clone()]),
                            Expr::Tuple(vec![seven.clone(), plain.clone()]),
                        ),
                    ];
                    for (a, b) in shapes.iter() {
                        let (sa, sb) = (a.render(), b.render());
                        let mut c1 = ctx.clone();
                        let mut c2 = ctx.clone();
                        let r1 = evalexpr::eval_with_context_mut(&sa, &mut c1);
                        let r2 = evalexpr::eval_with_context_mut(&sb, &mut c2);
                        let s1 = format!("{} vars={:?}", cr(&r1), snapshot_vars(&c1));
                        let s2 = format!("{} vars={:?}", cr(&r2), snapshot_vars(&c2));
                        if s1 != s2 {
                            return format!(
                                "DIFFERENT: `{}` gives {} but `{}` gives {}",
                                sa, s1, sb, s2
                            );
                        }
                    }
                    // and with the right-hand side written without parentheses (it binds tighter
                    // than any assignment operator: `x op= e` still means `x = x op (e)`)
                    if !matches!(rhs, Expr::Chain(_) | Expr::Assign(..) | Expr::AssignTo(..)) {
                        for bare in [rhs.render(), rhs.render_loose()] {
                            let sa = format!("{} {} {}", name, op.sym(), bare);
                            let sb = format!(
                                "{} = {} {} ({})",
                                name,
                                name,
                                op.plain().unwrap_or(Bin::Add).sym(),
                                bare
                            );
                            let mut c1 = ctx.clone();
                            let mut c2 = ctx.clone();
                            let r1 = evalexpr::eval_with_context_mut(&sa, &mut c1);
                            let r2 = evalexpr::eval_with_context_mut(&sb, &mut c2);
                            let s1 = format!("{} vars={:?}", cr(&r1), snapshot_vars(&c1));
                            let s2 = format!("{} vars={:?}", cr(&r2), snapshot_vars(&c2));
                            if s1 != s2 {
                                return format!(
                                    "DIFFERENT: `{}` gives {} but `{}` gives {}",
                                    sa, s1, sb, s2
                                );
                            }
                        }
                    }
                }
                "equivalent".to_string()
            })
        },
        Op::EvalTyped { program, typed, mutable } => {
            let tree = program.assemble(true);
            arm(rec, &[]);
            let r = guard(|| {
                let r = if *mutable {
                    crate::env::eval_entry_mut(&tree, None, ctx, Entry::Tree, *typed)
                } else {
                    crate::env::eval_entry_imm(&tree, None, &*ctx, Entry::Tree, *typed)
                };
                cr(&r)
            });
            let log = disarm(rec);
            format!("{} {}", r, render_log(log.as_deref()))
        },
        Op::Fork | Op::Overwrite { .. } | Op::Reset | Op::ResetMacro | Op::ResetDefault => {
            "()".to_string()
        },
    }
}

/// Closure of the macro-built context's function `g` (identity sentinel), recording like the
/// other user functions when a recorder is given.
fn macro_function(rec: Option<Rec>) -> impl Fn(&V) -> R + Send + Sync + Clone + 'static {
    move |arg: &V| {
        if let Some(rec) = &rec {
            let mut r = rec.lock().unwrap();
            if r.enabled && r.closures_record {
                let idx = r.log.len();
                r.log.push(Ev::Call("g".to_string(), cv(arg)));
                if r.faults.binary_search(&idx).is_ok() {
                    r.fired.push((idx, crate::env::FaultKind::CallError));
                    return Err(crate::env::injected_call_error(idx, arg));
                }
            }
        }
        Ok(sentinel("f", arg))
    }
}

/// The context (and its model) a reset operation installs.
pub fn fresh_context(op: &Op, rec: Option<&Rec>) -> (Ctx, Model) {
    match op {
        Op::ResetMacro => {
            let ctx: Ctx = evalexpr::context_map! {
                "a" => int 7,
                "b" => float 1.5,
                "f" => Value::Boolean(true),
                "g" => Function::new(macro_function(rec.cloned()))
            }
            .expect("context_map!");
            let mut model = Model::default();
            model.vars.insert("a".into(), Value::Int(7));
            model.vars.insert("b".into(), Value::Float(1.5));
            model.vars.insert("f".into(), Value::Boolean(true));
            model.fns.insert("g".into(), "f".into());
            (ctx, model)
        },
        Op::ResetDefault => (Ctx::default(), Model::default()),
        _ => (Ctx::new(), Model::default()),
    }
}

fn set_model(m: &mut Model, name: &str, value: V) -> Result<(), E> {
    if let Some(old) = m.vars.get(name) {
        if tag(old) != tag(&value) {
            return Err(expected_type_error(old, value));
        }
    }
    m.vars.insert(name.to_string(), value);
    Ok(())
}

/// Applies the operation to the model. `Err(())`: the reference declines (step skipped).
pub fn apply_model(
    m: &mut Model,
    op: &Op,
    d: &mut Delegate,
    record_calls: bool,
) -> Result<String, ()> {
    Ok(match op {
        Op::SetValue { name, value } => match set_model(m, name, value.clone()) {
            Ok(()) => "Ok(())".to_string(),
            Err(e) => format!("Err({})", crate::canon::ce(&e)),
        },
        Op::EvalMut { program, form, faults, .. } | Op::EvalImm { program, form, faults, .. } => {
            let immutable = matches!(op, Op::EvalImm { .. });
            // the meaning of a program is its own structure: if the parser rejects the source
            // text of a renderable program (or groups it differently), the real side shows it
            // (for source text too: what the text means is not taken from the parser under test)
            let tree = if form.is_parsed() { program.assemble(true) } else { build_tree(program, *form).map(|x| x.0).unwrap_or_else(|_| program.assemble(true)) };
            let mut env = RefEnv {
                vars: m.vars.clone(),
                fns: m.fns.clone(),
                builtins_disabled: m.disabled,
                kind: CtxKind::Bare,
                log: Vec::new(),
                faults,
                fired: Vec::new(),
                counters: m.counters.clone(),
                panic_faults: false,
            };
            let r: R = match ref_eval(&tree, &mut env, immutable, d) {
                Ok(v) => Ok(v),
                Err(RefErr::Lib(e)) => Err(e),
                Err(RefErr::Skip(_)) => return Err(()),
            };
            if !immutable {
                m.vars = env.vars;
            }
            // the state of stateful user functions advances on either path, failed or not
            m.counters = env.counters;
            format!(
                "{} {}",
                cr(&r),
                render_log(if record_calls { Some(&env.log) } else { None })
            )
        },
        Op::BulkSet { count } => {
            let mut errors = 0;
            for i in 0..*count {
                if set_model(m, &format!("v{}", i), Value::Int(i as i64)).is_err() {
                    errors += 1;
                }
            }
            format!("errors={}", errors)
        },
        Op::BulkFailedCalls { name, count } => {
            // the recorder numbers the calls 0..count: the injected errors vary with the index
            let arg = Value::Int(1);
            let mut out: Vec<String> = Vec::new();
            for i in 0..*count {
                let r: R = if m.fns.contains_key(name) {
                    Err(crate::env::injected_call_error(i, &arg))
                } else {
                    Err(EvalexprError::FunctionIdentifierNotFound(name.clone()))
                };
                let s = cr(&r);
                if out.last() != Some(&s) {
                    out.push(s);
                }
            }
            out.join(" | ")
        },
        Op::BigStrings { name, kib, count } => {
            let big = Value::String("x".repeat(kib * 1024));
            let mut out: Vec<String> = Vec::new();
            for _ in 0..*count {
                let s = match set_model(m, name, big.clone()) {
                    Ok(()) => "Ok".to_string(),
                    Err(e) => crate::canon::ce(&e).chars().take(24).collect::<String>(),
                };
                if out.last() != Some(&s) {
                    out.push(s);
                }
            }
            let a = set_model(m, "zz_text", Value::String("p".into())).is_ok();
            let b = set_model(m, "zz_text", Value::String("q".into())).is_ok();
            format!("{} then small string ok={} {}", out.join(" | "), a, b)
        },
        Op::GetValue { name } => match m.vars.get(name) {
            Some(v) => format!("Some({})", cv(v)),
            None => "None".to_string(),
        },
        Op::IterVars => {
            let v: Vec<String> = m.vars.iter().map(|(n, v)| format!("{}={}", n, cv(v))).collect();
            format!("[{}]", v.join(", "))
        },
        Op::IterNames => {
            let v: Vec<String> = m.vars.keys().cloned().collect();
            format!("[{}]", v.join(", "))
        },
        Op::ClearVars => {
            m.vars.clear();
            "()".to_string()
        },
        Op::ClearFns => {
            m.fns.clear();
            m.counters.clear();
            "()".to_string()
        },
        Op::Clear => {
            m.vars.clear();
            m.fns.clear();
            m.counters.clear();
            "()".to_string()
        },
        Op::SetFunction { name, behaviour } => {
            m.fns.insert(name.clone(), behaviour.clone());
            m.counters.remove(name);
            if behaviour == "c" {
                m.counters.insert(name.clone(), 0);
            }
            "Ok(())".to_string()
        },
        Op::CallFunction { name, arg, fault } => {
            let (r, log): (R, Vec<Ev>) = match m.fns.get(name) {
                Some(b) => {
                    let log = vec![Ev::Call(name.clone(), cv(arg))];
                    if *fault {
                        (Err(injected_error(0)), log)
                    } else if b == "c" {
                        let count = m.counters.entry(name.clone()).or_insert(0);
                        (Ok(crate::refint::counter_sentinel(count, arg)), log)
                    } else {
                        (Ok(sentinel(b, arg)), log)
                    }
                },
                None => (
                    Err(EvalexprError::FunctionIdentifierNotFound(name.clone())),
                    vec![],
                ),
            };
            format!(
                "{} {}",
                cr(&r),
                render_log(if record_calls { Some(&log) } else { None })
            )
        },
        Op::SetBuiltinsDisabled(b) => {
            m.disabled = *b;
            "Ok(())".to_string()
        },
        Op::OpAssignEquiv { name, rhs, .. } => {
            // precondition of the equivalence: the variable is bound (otherwise the two forms
            // legitimately fail at different points) and the operand contains no assignment
            // ... and the name can be spelled in an expression
            if !m.vars.contains_key(name)
                || rhs.has_assignment()
                || crate::env::API_ONLY_NAMES.contains(&name.as_str())
            {
                return Err(());
            }
            "equivalent".to_string()
        },
        Op::EvalTyped { program, typed, mutable } => {
            let tree = program.assemble(true);
            let mut env = RefEnv {
                vars: m.vars.clone(),
                fns: m.fns.clone(),
                builtins_disabled: m.disabled,
                kind: CtxKind::Bare,
                log: Vec::new(),
                faults: &[],
                fired: Vec::new(),
                counters: m.counters.clone(),
                panic_faults: false,
            };
            let r: R = match ref_eval(&tree, &mut env, !*mutable, d) {
                Ok(v) => Ok(v),
                Err(RefErr::Lib(e)) => Err(e),
                Err(RefErr::Skip(_)) => return Err(()),
            };
            let r = crate::env::project_typed(r, *typed);
            if *mutable {
                m.vars = env.vars;
            }
            m.counters = env.counters;
            format!(
                "{} {}",
                cr(&r),
                render_log(if record_calls { Some(&env.log) } else { None })
            )
        },
        Op::Fork | Op::Overwrite { .. } | Op::Reset | Op::ResetMacro | Op::ResetDefault => {
            "()".to_string()
        },
    })
}

#[derive(Clone, Debug, PartialEq)]
pub struct HFinding {
    pub class: String,
    pub step: usize,
    pub actor: usize,
    pub expected: String,
    pub actual: String,
}

pub struct Actor {
    pub ctx: Ctx,
    pub model: Model,
}

/// Per-history coverage record.
#[derive(Default)]
pub struct HCoverage {
    /// (abstract state before, op kind, ok/err) cells visited
    pub cells: Vec<(u32, String, bool)>,
}

/// Executes a history sequentially. Returns the first finding.
pub fn run_history(
    h: &History,
    stats: &mut Stats,
    d: &mut Delegate,
    cov: Option<&mut HCoverage>,
) -> Option<HFinding> {
    let rec = new_recorder();
    let mut actors: Vec<Actor> = vec![Actor {
        ctx: Ctx::new(),
        model: Model::default(),
    }];
    let mut cov = cov;
    for (i, step) in h.steps.iter().enumerate() {
        let a = step.actor % actors.len();
        let state_before = abstract_state(&actors[a].model);
        // multi-actor operations
        let (expected, actual) = match &step.op {
            Op::Fork => {
                if actors.len() < MAX_ACTORS {
                    let ctx = match catch_unwind(AssertUnwindSafe(|| actors[a].ctx.clone())) {
                        Ok(c) => c,
                        Err(_) => {
                            return Some(HFinding {
                                class: "panic".into(),
                                step: i,
                                actor: a,
                                expected: "clone() returns".into(),
                                actual: format!("PANIC: {}", crate::env::last_panic()),
                            })
                        },
                    };
                    let model = actors[a].model.clone();
                    actors.push(Actor { ctx, model });
                    stats.inc("fault_fired.clone_fork");
                }
                ("()".to_string(), "()".to_string())
            },
            Op::Overwrite { from, clone_from } => {
                let f = from % actors.len();
                if f != a {
                    if *clone_from {
                        let (src, dst) = if f < a {
                            let (l, r) = actors.split_at_mut(a);
                            (&l[f], &mut r[0])
                        } else {
                            let (l, r) = actors.split_at_mut(f);
                            (&r[0], &mut l[a])
                        };
                        dst.ctx.clone_from(&src.ctx);
                    } else {
                        let ctx = actors[f].ctx.clone();
                        actors[a].ctx = ctx;
                    }
                    let model = actors[f].model.clone();
                    actors[a].model = model;
                    stats.inc("fault_fired.clone_overwrite");
                }
                ("()".to_string(), "()".to_string())
            },
            Op::Reset | Op::ResetDefault | Op::ResetMacro => {
                let (ctx, model) = fresh_context(&step.op, Some(&rec));
                actors[a].ctx = ctx;
                actors[a].model = model;
                stats.inc("fault_fired.reset");
                ("()".to_string(), "()".to_string())
            },
            op => {
                let mut model = actors[a].model.clone();
                let expected = match apply_model(&mut model, op, d, true) {
                    Ok(e) => e,
                    Err(()) => {
                        stats.inc("steps_skipped_by_reference");
                        continue;
                    },
                };
                if expected.starts_with("PARSE-REJECTED") {
                    stats.inc("parse_rejected");
                    continue;
                }
                let actual = apply_real(&mut actors[a].ctx, op, Some(&rec));
                actors[a].model = model;
                (expected, actual)
            },
        };
        stats.inc("steps");
        stats.inc(&format!("op.{}", step.op.kind().split(':').next().unwrap_or("")));
        let ok = !expected.starts_with("Err");
        classify_faults(&step.op, &expected, stats);
        if let Some(c) = cov.as_deref_mut() {
            c.cells.push((state_before, step.op.kind(), ok));
        }
        if actual.starts_with("PANIC") {
            return Some(HFinding {
                class: "panic".into(),
                step: i,
                actor: a,
                expected,
                actual,
            });
        }
        if expected != actual {
            let class = if matches!(step.op, Op::OpAssignEquiv { .. }) {
                "opassign-equivalence"
            } else {
                "return-mismatch"
            };
            return Some(HFinding {
                class: class.into(),
                step: i,
                actor: a,
                expected,
                actual,
            });
        }
        // complete observable state of EVERY actor (after every `observe_every`-th step, and
        // after the last one)
        let observe_now = h.observe_every <= 1 || (i + 1) % h.observe_every == 0 || i + 1 == h.steps.len();
        if !observe_now {
            continue;
        }
        for (k, actor) in actors.iter().enumerate() {
            let om = observe_model(&actor.model);
            let or = match catch_unwind(AssertUnwindSafe(|| observe_real(&actor.ctx))) {
                Ok(o) => o,
                Err(_) => {
                    return Some(HFinding {
                        class: "panic".into(),
                        step: i,
                        actor: k,
                        expected: om.render(),
                        actual: format!("PANIC: {}", crate::env::last_panic()),
                    })
                },
            };
            stats.inc("state_observations");
            if om != or {
                let (expected, actual) = om.diff(&or);
                return Some(HFinding {
                    class: if k == a {
                        "state-mismatch".into()
                    } else {
                        "cross-actor-interference".into()
                    },
                    step: i,
                    actor: k,
                    expected,
                    actual,
                });
            }
        }
    }
    stats.add("actors_at_end", actors.len() as u64);
    None
}

fn classify_faults(op: &Op, expected: &str, stats: &mut Stats) {
    if !expected.starts_with("Err") {
        match op {
            Op::ClearVars | Op::ClearFns | Op::Clear => stats.inc("fault_fired.clear"),
            _ => {},
        }
        return;
    }
    let kind = if expected.contains("injected@") {
        "userfn_error"
    } else if expected.contains("ContextNotMutable") {
        "context_not_mutable"
    } else if expected.starts_with("Err(Expected") {
        match op {
            Op::SetValue { .. } => "type_mismatch",
            _ => "type_mismatch_or_operand_type",
        }
    } else if expected.contains("VariableIdentifierNotFound") {
        "unbound_read"
    } else if expected.contains("FunctionIdentifierNotFound") {
        "unknown_fn"
    } else if expected.contains("Error(") {
        "arith_error"
    } else {
        "other_error"
    };
    stats.inc(&format!("fault_fired.{}", kind));
}

// ------------------------------------------------------------------------------ generation

#[derive(Clone, Debug)]
pub struct HistCfg {
    pub observe_every: usize,
    pub steps: usize,
    pub fault_free: bool,
    pub weights: [u32; 19],
    pub well_typed_pct: u64,
}

pub fn hist_cfg(rng: &mut Rng) -> HistCfg {
    let fault_free = rng.percent(25);
    // op order: set_value, eval_mut, eval_imm, get_value, iter_vars, iter_names, clear_vars,
    // clear_fns, clear, set_function, call_function, set_builtins, fork, overwrite, reset, equiv
    let mut weights: [u32; 19] = [14, 30, 5, 3, 2, 2, 3, 2, 2, 5, 4, 3, 5, 3, 1, 6, 1, 1, 1];
    // swarm: switch some operation kinds off or up per run
    for w in weights.iter_mut() {
        match rng.below(6) {
            0 => *w = 0,
            1 => *w *= 3,
            _ => {},
        }
    }
    if weights.iter().all(|w| *w == 0) {
        weights[1] = 1;
    }
    HistCfg {
        observe_every: *rng.pick(&[1usize, 1, 1, 3, 7, 1000]),
        steps: *rng.pick(&[3usize, 6, 10, 20, 40]),
        fault_free,
        weights,
        well_typed_pct: if fault_free { 100 } else { *rng.pick(&[60, 80, 95]) },
    }
}

fn gen_program(
    rng: &mut Rng,
    model: &Model,
    cfg: &HistCfg,
    statement: bool,
) -> Expr {
    let gcfg = GenCfg {
        budget: *rng.pick(&[1usize, 2, 4, 6, 9]),
        max_depth: 4,
        well_typed_pct: cfg.well_typed_pct,
        fail_leaf_pct: if cfg.fault_free { 0 } else { *rng.pick(&[0u64, 5, 15]) },
        builtins: if model.disabled { rng.percent(25) } else { rng.percent(50) },
        spiny: false,
        // mostly single statements (their outcome does not depend on evaluation order); now and
        // then a two-statement chain (a failing first statement must fail the whole program)
        max_statements: if statement && rng.percent(12) { 2 } else { 1 },
        assign_pct: if statement { 85 } else { 0 },
        nested_statements: false,
    };
    let setup = crate::env::Setup {
        vars: model.vars.iter().map(|(n, v)| (n.clone(), v.clone())).collect(),
        fns: vec![],
        builtins_disabled: model.disabled,
        aging: 0,
    };
    let tuple_of_assignments = statement && rng.percent(6);
    let mut g = Gen::new(rng, gcfg, &setup);
    g.names = H_VARS.iter().map(|s| s.to_string()).collect();
    g.fn_names.clear();
    for (name, behaviour) in &model.fns {
        g.fn_names.entry(behaviour.clone()).or_default().push(name.clone());
    }
    if tuple_of_assignments {
        // assignments below a non-statement operator: `(x = e1, y = e2)`
        let a = g.program();
        let b = g.program();
        if g.rng.percent(50) {
            // ... after a statement: `s; x += e1, y = e2` (a tuple written directly after a `;`)
            let s = g.program();
            return Expr::Chain(vec![s, Expr::Tuple(vec![a, b])]);
        }
        return Expr::Tuple(vec![a, b]);
    }
    g.program()
}

/// Generates a history from the run seed streams. The generator runs the model along so that
/// operations can be drawn relative to the current abstract state (typed operands, collisions).
pub fn gen_history(work: &mut Rng, sched: &mut Rng, conf: &mut Rng, d: &mut Delegate) -> History {
    let cfg = hist_cfg(conf);
    let mut models: Vec<Model> = vec![Model::default()];
    let mut h = History {
        steps: Vec::new(),
        observe_every: cfg.observe_every,
    };
    for _ in 0..cfg.steps {
        let a = sched.usize_below(models.len());
        let mut kind = work.weighted(&cfg.weights);
        if kind == 12 && models.len() >= MAX_ACTORS {
            kind = 13;
        }
        let model = &models[a];
        let name = |r: &mut Rng| {
            if r.percent(8) {
                r.pick(&crate::env::EXTRA_VAR_NAMES).to_string()
            } else {
                r.pick(&H_VARS).to_string()
            }
        };
        let op = match kind {
            0 => {
                let n = if work.percent(3) { work.pick(&crate::env::API_ONLY_NAMES).to_string() } else { name(work) };
                let value = match model.vars.get(&n) {
                    Some(old) if work.percent(cfg.well_typed_pct) => {
                        // same type: overwrite (for tuples possibly another length, incl. the
                        // empty and the one-element tuple, which only the API can produce)
                        let mut p = crate::gen::pool(ty_of(old));
                        if ty_of(old) == Ty::Tuple {
                            p.push(Value::Tuple(vec![]));
                            p.push(Value::Tuple(vec![Value::Int(7)]));
                        }
                        work.pick(&p).clone()
                    },
                    _ => crate::gen::any_value_ext(work),
                };
                Op::SetValue { name: n, value }
            },
            1 | 2 => {
                let statement = kind == 1 || work.percent(30);
                let program = gen_program(work, model, &cfg, statement);
                let renderable = program.is_renderable();
                let form = match work.below(3) {
                    0 if renderable && work.percent(40) => Form::ParsedLoose,
                    0 if renderable => Form::Parsed,
                    1 => Form::Assembled { wrap: false },
                    _ => Form::Assembled { wrap: true },
                };
                let entry = if form.is_parsed() && work.percent(50) { Entry::Str } else { Entry::Tree };
                let faults = if !cfg.fault_free && work.percent(20) {
                    vec![work.usize_below(3)]
                } else {
                    vec![]
                };
                if work.percent(20) {
                    Op::EvalTyped { program, typed: 1 + work.usize_below(7), mutable: kind == 1 || work.percent(50) }
                } else if kind == 1 {
                    Op::EvalMut { program, form, entry, faults }
                } else {
                    Op::EvalImm { program, form, entry, faults }
                }
            },
            3 => Op::GetValue {
                name: if work.percent(15) {
                    UNBOUND_NAME.to_string()
                } else if work.percent(3) {
                    work.pick(&crate::env::API_ONLY_NAMES).to_string()
                } else {
                    name(work)
                },
            },
            4 => Op::IterVars,
            5 => Op::IterNames,
            6 => Op::ClearVars,
            7 => Op::ClearFns,
            8 => Op::Clear,
            9 => Op::SetFunction {
                name: work.pick(&H_FNS).to_string(),
                behaviour: work.pick(&BEHAVIOURS).to_string(),
            },
            10 => Op::CallFunction {
                name: if work.percent(10) { UNKNOWN_FN.to_string() } else { work.pick(&H_FNS).to_string() },
                arg: any_value(work),
                fault: !cfg.fault_free && work.percent(25),
            },
            11 => Op::SetBuiltinsDisabled(work.percent(50)),
            12 => Op::Fork,
            13 => Op::Overwrite {
                from: sched.usize_below(models.len()),
                clone_from: work.percent(50),
            },
            14 => match work.below(3) {
                0 => Op::Reset,
                1 => Op::ResetDefault,
                _ => Op::ResetMacro,
            },
            16 => Op::BulkSet {
                count: *work.pick(&[8usize, 30, 60, 120]),
            },
            17 => Op::BulkFailedCalls {
                name: work.pick(&H_FNS).to_string(),
                count: *work.pick(&[20usize, 130, 300]),
            },
            18 => {
                // only against a variable that holds a non-string (every assignment is rejected;
                // a big string that got bound would make every later observation expensive)
                let targets: Vec<String> = model
                    .vars
                    .iter()
                    .filter(|(_, v)| !matches!(v, Value::String(_)))
                    .map(|(n, _)| n.clone())
                    .collect();
                if targets.is_empty() {
                    Op::GetValue { name: name(work) }
                } else {
                    Op::BigStrings {
                        name: work.pick(&targets).clone(),
                        kib: *work.pick(&[16usize, 300]),
                        count: *work.pick(&[3usize, 12, 20]),
                    }
                }
            },
            _ => {
                // metamorphic op-assign check on a bound variable, with an effect-free operand
                let bound: Vec<String> = model
                    .vars
                    .keys()
                    .filter(|k| !crate::env::API_ONLY_NAMES.contains(&k.as_str()))
                    .cloned()
                    .collect();
                if bound.is_empty() {
                    Op::GetValue { name: name(work) }
                } else {
                    let n = work.pick(&bound).clone();
                    let op = *work.pick(&ALL_AOP[1..]);
                    let rhs_ty = if work.percent(cfg.well_typed_pct) {
                        match (op, ty_of(&model.vars[&n])) {
                            (AOp::And | AOp::Or, _) => Ty::Bool,
                            (AOp::Add, Ty::Str) => Ty::Str,
                            (_, Ty::Float) => Ty::Float,
                            _ => Ty::Int,
                        }
                    } else {
                        *work.pick(&ALL_TY)
                    };
                    let mut rhs = gen_program(work, model, &cfg, false);
                    if rhs.has_assignment() || work.percent(50) {
                        let p = crate::gen::pool(rhs_ty);
                        rhs = Expr::Lit(work.pick(&p).clone());
                    }
                    Op::OpAssignEquiv { name: n, op, rhs }
                }
            },
        };
        // run the model along
        match &op {
            Op::Fork => {
                if models.len() < MAX_ACTORS {
                    let m = models[a].clone();
                    models.push(m);
                }
            },
            Op::Overwrite { from, .. } => {
                let f = from % models.len();
                let m = models[f].clone();
                models[a] = m;
            },
            Op::Reset | Op::ResetDefault | Op::ResetMacro => models[a] = fresh_context(&op, None).1,
            other => {
                let mut m = models[a].clone();
                if apply_model(&mut m, other, d, true).is_ok() {
                    models[a] = m;
                }
            },
        }
        h.steps.push(Step { actor: a, op });
    }
    h
}

// ------------------------------------------------------------------------------ shrinking

/// One-step simplifications of a history (fewer steps first, then simpler steps).
pub fn shrink_history(h: &History) -> Vec<History> {
    let mut out = Vec::new();
    let n = h.steps.len();
    // drop suffix halves / chunks / single steps
    let mut chunk = n / 2;
    while chunk >= 1 {
        let mut start = 0;
        while start < n {
            let end = (start + chunk).min(n);
            let mut steps = h.steps[..start].to_vec();
            steps.extend_from_slice(&h.steps[end..]);
            out.push(History { steps, observe_every: h.observe_every });
            start += chunk;
        }
        if chunk == 1 {
            break;
        }
        chunk /= 2;
    }
    // simplify single steps
    for i in 0..n {
        let step = &h.steps[i];
        let mut variants: Vec<Op> = Vec::new();
        match &step.op {
            Op::EvalMut { program, form, entry, faults } => {
                for p in program.shrink_candidates() {
                    if form.is_parsed() && !p.is_renderable() {
                        continue;
                    }
                    variants.push(Op::EvalMut { program: p, form: *form, entry: *entry, faults: faults.clone() });
                }
                if !faults.is_empty() {
                    variants.push(Op::EvalMut { program: program.clone(), form: *form, entry: *entry, faults: vec![] });
                }
                if *form != (Form::Assembled { wrap: false }) {
                    variants.push(Op::EvalMut { program: program.clone(), form: Form::Assembled { wrap: false }, entry: Entry::Tree, faults: faults.clone() });
                }
                if let Expr::Assign(AOp::Assign, name, rhs) = program {
                    if let Expr::Lit(v) = &**rhs {
                        variants.push(Op::SetValue { name: name.clone(), value: v.clone() });
                    }
                }
            },
            Op::EvalImm { program, form, entry, faults } => {
                for p in program.shrink_candidates() {
                    if form.is_parsed() && !p.is_renderable() {
                        continue;
                    }
                    variants.push(Op::EvalImm { program: p, form: *form, entry: *entry, faults: faults.clone() });
                }
                if !faults.is_empty() {
                    variants.push(Op::EvalImm { program: program.clone(), form: *form, entry: *entry, faults: vec![] });
                }
            },
            Op::OpAssignEquiv { name, op, rhs } => {
                for p in rhs.shrink_candidates() {
                    variants.push(Op::OpAssignEquiv { name: name.clone(), op: *op, rhs: p });
                }
            },
            Op::EvalTyped { program, typed, mutable } => {
                for p in program.shrink_candidates() {
                    variants.push(Op::EvalTyped { program: p, typed: *typed, mutable: *mutable });
                }
            },
            Op::SetValue { name, value } => {
                for v in shrink_val(value) {
                    variants.push(Op::SetValue { name: name.clone(), value: v });
                }
            },
            Op::BulkSet { count } if *count > 1 => {
                variants.push(Op::BulkSet { count: count / 2 });
                variants.push(Op::BulkSet { count: count - 1 });
            },
            Op::CallFunction { name, arg, fault } => {
                for v in shrink_val(arg) {
                    variants.push(Op::CallFunction { name: name.clone(), arg: v, fault: *fault });
                }
                if *fault {
                    variants.push(Op::CallFunction { name: name.clone(), arg: arg.clone(), fault: false });
                }
            },
            _ => {},
        }
        for v in variants {
            let mut steps = h.steps.clone();
            steps[i] = Step { actor: step.actor, op: v };
            out.push(History { steps, observe_every: h.observe_every });
        }
        if step.actor != 0 {
            let mut steps = h.steps.clone();
            steps[i].actor = 0;
            out.push(History { steps, observe_every: h.observe_every });
        }
    }
    out
}

fn shrink_val(v: &V) -> Vec<V> {
    match v {
        Value::Int(0) => vec![],
        Value::Int(_) => vec![Value::Int(0)],
        Value::Float(f) if *f == 1.5 => vec![],
        Value::Float(_) => vec![Value::Float(1.5)],
        Value::String(s) if s.is_empty() => vec![],
        Value::String(_) => vec![Value::String(String::new())],
        Value::Tuple(t) if t.is_empty() => vec![],
        Value::Tuple(t) => {
            let mut out = vec![Value::Tuple(vec![])];
            for i in 0..t.len() {
                let mut w = t.clone();
                w.remove(i);
                out.push(Value::Tuple(w));
            }
            out
        },
        _ => vec![],
    }
}

// ------------------------------------------------------------------------------ threaded plan

/// One step of an actor in the threaded configuration, with the model's prediction.
#[derive(Clone, Debug)]
pub struct PlannedStep {
    /// index of the step in the history (for reporting)
    pub index: usize,
    pub op: Op,
    /// expected canonical return value (calls unrecorded)
    pub expected: String,
    /// expected complete observable state of this actor after the step
    pub obs: Observation,
    /// for `Fork`: the actor that starts from the clone
    pub fork_target: Option<usize>,
}

/// Per-actor plans of a history for the threaded configuration: every actor runs on its own
/// simulated thread; a forked actor starts when its parent hands the clone over (thread
/// migration). The predictions come from a model-only pass: actors are independent of each other
/// except at fork points, so the predictions do not depend on the interleaving.
/// User functions are pure sentinels here (no shared recorder between threads), `Overwrite`
/// steps are dropped (they would couple two threads at a harness-chosen point).
pub fn plan_threaded(h: &History, d: &mut Delegate) -> Vec<Vec<PlannedStep>> {
    let mut models: Vec<Model> = vec![Model::default()];
    let mut plans: Vec<Vec<PlannedStep>> = vec![Vec::new()];
    for (i, step) in h.steps.iter().enumerate() {
        let a = step.actor % models.len();
        let op = match &step.op {
            Op::Overwrite { .. } => continue,
            // needs the recorder's fault plan, which the threaded configuration does not have
            Op::BulkFailedCalls { .. } => continue,
            Op::EvalMut { program, form, entry, .. } => Op::EvalMut {
                program: program.clone(),
                form: *form,
                entry: *entry,
                faults: vec![],
            },
            Op::EvalImm { program, form, entry, .. } => Op::EvalImm {
                program: program.clone(),
                form: *form,
                entry: *entry,
                faults: vec![],
            },
            Op::CallFunction { name, arg, .. } => Op::CallFunction {
                name: name.clone(),
                arg: arg.clone(),
                fault: false,
            },
            other => other.clone(),
        };
        let mut fork_target = None;
        let expected = match &op {
            Op::Fork => {
                if models.len() < MAX_ACTORS {
                    let m = models[a].clone();
                    models.push(m);
                    plans.push(Vec::new());
                    fork_target = Some(models.len() - 1);
                    "()".to_string()
                } else {
                    continue;
                }
            },
            Op::Reset | Op::ResetDefault | Op::ResetMacro => {
                models[a] = fresh_context(&op, None).1;
                "()".to_string()
            },
            other => {
                let mut m = models[a].clone();
                match apply_model(&mut m, other, d, false) {
                    Ok(e) if !e.starts_with("PARSE-REJECTED") => {
                        models[a] = m;
                        e
                    },
                    _ => continue,
                }
            },
        };
        plans[a].push(PlannedStep {
            index: i,
            op,
            expected,
            obs: observe_model(&models[a]),
            fork_target,
        });
    }
    plans
}
