//! Program AST used by the workload generators: rendering to source text (inside the uncontested
//! region of the grammar), direct assembly into a `Node` without the parser, JSON encoding for
//! replay files, and structural shrinking candidates for the minimiser.

use crate::canon::{value_from_json, value_to_json, V};
use crate::json::Json;
use evalexpr::{build_operator_tree, DefaultNumericTypes, Node, Operator, Value};

#[derive(Clone, Copy, Debug, PartialEq, Eq, Hash)]
pub enum Un {
    Neg,
    Not,
}

#[derive(Clone, Copy, Debug, PartialEq, Eq, Hash)]
pub enum Bin {
    Add,
    Sub,
    Mul,
    Div,
    Mod,
    Exp,
    Eq,
    Neq,
    Gt,
    Lt,
    Geq,
    Leq,
    And,
    Or,
}

pub const ALL_BIN: [Bin; 14] = [
    Bin::Add,
    Bin::Sub,
    Bin::Mul,
    Bin::Div,
    Bin::Mod,
    Bin::Exp,
    Bin::Eq,
    Bin::Neq,
    Bin::Gt,
    Bin::Lt,
    Bin::Geq,
    Bin::Leq,
    Bin::And,
    Bin::Or,
];

#[derive(Clone, Copy, Debug, PartialEq, Eq, Hash)]
pub enum AOp {
    Assign,
    Add,
    Sub,
    Mul,
    Div,
    Mod,
    Exp,
    And,
    Or,
}

pub const ALL_AOP: [AOp; 9] = [
    AOp::Assign,
    AOp::Add,
    AOp::Sub,
    AOp::Mul,
    AOp::Div,
    AOp::Mod,
    AOp::Exp,
    AOp::And,
    AOp::Or,
];

impl Un {
    pub fn sym(self) -> &'static str {
        match self {
            Un::Neg => "-",
            Un::Not => "!",
        }
    }
    pub fn operator(self) -> Operator {
        match self {
            Un::Neg => Operator::Neg,
            Un::Not => Operator::Not,
        }
    }
    fn from_sym(s: &str) -> Option<Un> {
        [Un::Neg, Un::Not].into_iter().find(|u| u.sym() == s)
    }
}

impl Bin {
    pub fn sym(self) -> &'static str {
        match self {
            Bin::Add => "+",
            Bin::Sub => "-",
            Bin::Mul => "*",
            Bin::Div => "/",
            Bin::Mod => "%",
            Bin::Exp => "^",
            Bin::Eq => "==",
            Bin::Neq => "!=",
            Bin::Gt => ">",
            Bin::Lt => "<",
            Bin::Geq => ">=",
            Bin::Leq => "<=",
            Bin::And => "&&",
            Bin::Or => "||",
        }
    }
    pub fn operator(self) -> Operator {
        match self {
            Bin::Add => Operator::Add,
            Bin::Sub => Operator::Sub,
            Bin::Mul => Operator::Mul,
            Bin::Div => Operator::Div,
            Bin::Mod => Operator::Mod,
            Bin::Exp => Operator::Exp,
            Bin::Eq => Operator::Eq,
            Bin::Neq => Operator::Neq,
            Bin::Gt => Operator::Gt,
            Bin::Lt => Operator::Lt,
            Bin::Geq => Operator::Geq,
            Bin::Leq => Operator::Leq,
            Bin::And => Operator::And,
            Bin::Or => Operator::Or,
        }
    }
    fn from_sym(s: &str) -> Option<Bin> {
        ALL_BIN.into_iter().find(|b| b.sym() == s)
    }
    /// Precedence as documented in the README (higher binds tighter).
    pub fn precedence(self) -> u32 {
        match self {
            Bin::Exp => 120,
            Bin::Mul | Bin::Div | Bin::Mod => 100,
            Bin::Add | Bin::Sub => 95,
            Bin::Eq | Bin::Neq | Bin::Gt | Bin::Lt | Bin::Geq | Bin::Leq => 80,
            Bin::And => 75,
            Bin::Or => 70,
        }
    }
}

impl AOp {
    pub fn sym(self) -> &'static str {
        match self {
            AOp::Assign => "=",
            AOp::Add => "+=",
            AOp::Sub => "-=",
            AOp::Mul => "*=",
            AOp::Div => "/=",
            AOp::Mod => "%=",
            AOp::Exp => "^=",
            AOp::And => "&&=",
            AOp::Or => "||=",
        }
    }
    pub fn operator(self) -> Operator {
        match self {
            AOp::Assign => Operator::Assign,
            AOp::Add => Operator::AddAssign,
            AOp::Sub => Operator::SubAssign,
            AOp::Mul => Operator::MulAssign,
            AOp::Div => Operator::DivAssign,
            AOp::Mod => Operator::ModAssign,
            AOp::Exp => Operator::ExpAssign,
            AOp::And => Operator::AndAssign,
            AOp::Or => Operator::OrAssign,
        }
    }
    /// The plain binary operator of an operator-assignment.
    pub fn plain(self) -> Option<Bin> {
        match self {
            AOp::Assign => None,
            AOp::Add => Some(Bin::Add),
            AOp::Sub => Some(Bin::Sub),
            AOp::Mul => Some(Bin::Mul),
            AOp::Div => Some(Bin::Div),
            AOp::Mod => Some(Bin::Mod),
            AOp::Exp => Some(Bin::Exp),
            AOp::And => Some(Bin::And),
            AOp::Or => Some(Bin::Or),
        }
    }
    fn from_sym(s: &str) -> Option<AOp> {
        ALL_AOP.into_iter().find(|b| b.sym() == s)
    }
}

#[derive(Clone, Debug, PartialEq)]
pub enum Expr {
    Lit(V),
    Read(String),
    /// `f(e)`; `None` is `f()`.
    Call(String, Option<Box<Expr>>),
    Un(Un, Box<Expr>),
    Bin(Bin, Box<Expr>, Box<Expr>),
    Tuple(Vec<Expr>),
    Chain(Vec<Expr>),
    Assign(AOp, String, Box<Expr>),
    /// assignment whose target is computed: `<target expr> op= <rhs>` (the target must evaluate
    /// to a string naming the variable)
    AssignTo(AOp, Box<Expr>, Box<Expr>),
    /// a binary operator node that has only its left operand (`a +`): malformed but parseable;
    /// the present operand must still be evaluated before the arity error is reported
    Dangling(Bin, Box<Expr>),
    /// a tree edited by hand through the public accessors (`children_mut().push(..)`): the node
    /// of the inner expression (`root == false`) or a `RootNode` around it (`root == true`) gets
    /// further children. No source text means this; all children must still be evaluated, in
    /// order, before the operator looks at how many there are.
    Extra(bool, Box<Expr>, Vec<Expr>),
    /// a `VariableIdentifierWrite` leaf in value position (what the tree builder makes of the
    /// last identifier before an assignment sign, e.g. the `a` in `n + a = 5`): evaluates to its
    /// own name as a string, on both paths, without touching the context. Assembled only.
    WriteName(String),
}

impl Expr {
    pub fn is_leaf(&self) -> bool {
        match self {
            Expr::Lit(v) => match v {
                Value::Int(i) => *i >= 0,
                Value::Float(f) => f.is_sign_positive(),
                Value::String(_) | Value::Boolean(_) => true,
                Value::Tuple(_) | Value::Empty => true, // rendered with their own parentheses
            },
            Expr::Read(_) | Expr::WriteName(_) => true,
            Expr::Call(..) => true, // `f(...)` binds tightest and carries its own parentheses
            Expr::Tuple(_) | Expr::Chain(_) => true, // always rendered parenthesised when nested
            _ => false,
        }
    }

    pub fn size(&self) -> usize {
        1 + match self {
            Expr::Lit(_) | Expr::Read(_) | Expr::WriteName(_) => 0,
            Expr::Call(_, a) => a.as_ref().map(|a| a.size()).unwrap_or(0),
            Expr::Un(_, a) => a.size(),
            Expr::Bin(_, a, b) => a.size() + b.size(),
            Expr::Tuple(v) | Expr::Chain(v) => v.iter().map(|e| e.size()).sum(),
            Expr::Assign(_, _, e) => e.size(),
            Expr::AssignTo(_, t, e) => t.size() + e.size(),
            Expr::Dangling(_, a) => a.size(),
            Expr::Extra(_, a, v) => a.size() + v.iter().map(|e| e.size()).sum::<usize>(),
        }
    }

    pub fn depth(&self) -> usize {
        1 + match self {
            Expr::Lit(_) | Expr::Read(_) | Expr::WriteName(_) => 0,
            Expr::Call(_, a) => a.as_ref().map(|a| a.depth()).unwrap_or(0),
            Expr::Un(_, a) => a.depth(),
            Expr::Bin(_, a, b) => a.depth().max(b.depth()),
            Expr::Tuple(v) | Expr::Chain(v) => v.iter().map(|e| e.depth()).max().unwrap_or(0),
            Expr::Assign(_, _, e) => e.depth(),
            Expr::AssignTo(_, t, e) => t.depth().max(e.depth()),
            Expr::Dangling(_, a) => a.depth(),
            Expr::Extra(_, a, v) => a.depth().max(v.iter().map(|e| e.depth()).max().unwrap_or(0)),
        }
    }

    pub fn has_assignment(&self) -> bool {
        match self {
            Expr::Assign(..) | Expr::AssignTo(..) => true,
            Expr::Lit(_) | Expr::Read(_) | Expr::WriteName(_) => false,
            Expr::Call(_, a) => a.as_ref().map(|a| a.has_assignment()).unwrap_or(false),
            Expr::Un(_, a) | Expr::Dangling(_, a) => a.has_assignment(),
            Expr::Bin(_, a, b) => a.has_assignment() || b.has_assignment(),
            Expr::Tuple(v) | Expr::Chain(v) => v.iter().any(|e| e.has_assignment()),
            Expr::Extra(_, a, v) => a.has_assignment() || v.iter().any(|e| e.has_assignment()),
        }
    }

    // ---------------------------------------------------------------- rendering

    /// Source text of the program. Top level: chains are bare, everything else as an operand.
    pub fn render(&self) -> String {
        let mut s = String::new();
        match self {
            Expr::Chain(v) => render_seq(v, "; ", &mut s),
            Expr::Assign(..) | Expr::AssignTo(..) => self.render_bare(&mut s),
            _ => self.render_bare(&mut s),
        }
        s
    }

    /// Like `render`, but a left operand that is itself a binary operation of at least the same
    /// precedence is written without parentheses (`a + b + c`, `a * b - c`): the parser then
    /// builds directly nested binary nodes, with no `RootNode` in between.
    pub fn render_loose(&self) -> String {
        LOOSE.with(|l| l.set(true));
        let s = self.render();
        LOOSE.with(|l| l.set(false));
        s
    }

    /// Like `render_loose`, and without any blank around operators and separators (`x=-5`,
    /// `a&&!b`, `f(1);g(2),h(3)`).
    pub fn render_tight(&self) -> String {
        let loose = self.render_loose();
        // blanks inside string literals stay
        let mut out = String::with_capacity(loose.len());
        let mut in_string = false;
        let mut escaped = false;
        for c in loose.chars() {
            if in_string {
                out.push(c);
                if escaped {
                    escaped = false;
                } else if c == '\\' {
                    escaped = true;
                } else if c == '"' {
                    in_string = false;
                }
            } else if c == '"' {
                in_string = true;
                out.push(c);
            } else if c != ' ' {
                out.push(c);
            }
        }
        out
    }

    /// Rendered so that it can stand as an operand: compound expressions get parentheses.
    fn render_operand(&self, out: &mut String) {
        if self.is_leaf() {
            self.render_bare(out);
        } else {
            out.push('(');
            self.render_bare(out);
            out.push(')');
        }
    }

    fn render_bare(&self, out: &mut String) {
        match self {
            Expr::Lit(v) => render_value(v, out),
            Expr::Read(n) => out.push_str(n),
            // (display only: not source text)
            Expr::WriteName(n) => {
                out.push_str("«write ");
                out.push_str(n);
                out.push('»');
            },
            Expr::Call(f, None) => {
                out.push_str(f);
                out.push_str("()");
            },
            Expr::Call(f, Some(a)) => {
                out.push_str(f);
                out.push('(');
                match &**a {
                    // a tuple or chain argument uses the call's own parentheses
                    Expr::Tuple(v) => render_seq(v, ", ", out),
                    Expr::Chain(v) => render_seq(v, "; ", out),
                    other => other.render_bare(out),
                }
                out.push(')');
            },
            Expr::Un(u, a) => {
                out.push_str(u.sym());
                a.render_operand(out);
            },
            Expr::Bin(b, l, r) => {
                let loose_left = LOOSE.with(|x| x.get())
                    && matches!(&**l, Expr::Bin(lb, _, _) if lb.precedence() >= b.precedence());
                let loose = LOOSE.with(|x| x.get());
                // a unary operator binds tighter than every binary one except `^`
                let loose_unary_left = loose && matches!(&**l, Expr::Un(..)) && *b != Bin::Exp;
                if loose_left || loose_unary_left {
                    l.render_bare(out);
                } else {
                    l.render_operand(out);
                }
                out.push(' ');
                out.push_str(b.sym());
                out.push(' ');
                // a right operand of strictly higher precedence needs no parentheses
                let loose_right = loose
                    && matches!(&**r, Expr::Bin(rb, _, _) if rb.precedence() > b.precedence());
                if loose_right {
                    r.render_bare(out);
                } else {
                    r.render_operand(out);
                }
            },
            Expr::Tuple(v) => {
                out.push('(');
                render_seq(v, ", ", out);
                out.push(')');
            },
            Expr::Chain(v) => {
                out.push('(');
                render_seq(v, "; ", out);
                out.push(')');
            },
            Expr::Assign(op, n, e) => {
                out.push_str(n);
                out.push(' ');
                out.push_str(op.sym());
                out.push(' ');
                // every unary and binary operator binds tighter than an assignment
                if LOOSE.with(|x| x.get()) && matches!(&**e, Expr::Bin(..) | Expr::Un(..)) {
                    e.render_bare(out);
                } else {
                    e.render_operand(out);
                }
            },
            Expr::AssignTo(op, t, e) => {
                t.render_operand(out);
                out.push(' ');
                out.push_str(op.sym());
                out.push(' ');
                e.render_operand(out);
            },
            Expr::Dangling(b, l) => {
                l.render_operand(out);
                out.push(' ');
                out.push_str(b.sym());
            },
            Expr::Extra(root, a, v) => {
                // (display only: not source text)
                out.push_str(if *root { "«root " } else { "«node " });
                a.render_bare(out);
                out.push_str(" + children: ");
                render_seq(v, ", ", out);
                out.push('»');
            },
        }
    }

    // ---------------------------------------------------------------- assembly

    /// Builds the tree directly through `Node::operator_mut` / `children_mut`, without tokenizer
    /// or tree builder. `wrap` adds the `RootNode` wrappers the parser would add for parentheses.
    pub fn assemble(&self, wrap: bool) -> Node {
        let inner = self.assemble_inner(wrap);
        if wrap {
            mk(Operator::RootNode, vec![inner])
        } else {
            inner
        }
    }

    fn assemble_operand(&self, wrap: bool) -> Node {
        let n = self.assemble_inner(wrap);
        let compound = !matches!(self, Expr::Lit(_) | Expr::Read(_) | Expr::WriteName(_) | Expr::Call(..));
        if wrap && compound {
            mk(Operator::RootNode, vec![n])
        } else {
            n
        }
    }

    fn assemble_inner(&self, wrap: bool) -> Node {
        match self {
            Expr::Lit(v) => mk(Operator::Const { value: v.clone() }, vec![]),
            Expr::Read(n) => mk(
                Operator::VariableIdentifierRead {
                    identifier: n.clone(),
                },
                vec![],
            ),
            Expr::WriteName(n) => mk(
                Operator::VariableIdentifierWrite {
                    identifier: n.clone(),
                },
                vec![],
            ),
            Expr::Call(f, a) => {
                let arg = match a {
                    None => mk(Operator::RootNode, vec![]),
                    Some(a) => {
                        let n = a.assemble_inner(wrap);
                        if wrap {
                            mk(Operator::RootNode, vec![n])
                        } else {
                            n
                        }
                    },
                };
                mk(
                    Operator::FunctionIdentifier {
                        identifier: f.clone(),
                    },
                    vec![arg],
                )
            },
            Expr::Un(u, a) => mk(u.operator(), vec![a.assemble_operand(wrap)]),
            Expr::Bin(b, l, r) => mk(
                b.operator(),
                vec![l.assemble_operand(wrap), r.assemble_operand(wrap)],
            ),
            Expr::Tuple(v) => mk(
                Operator::Tuple,
                v.iter().map(|e| e.assemble_operand(wrap)).collect(),
            ),
            Expr::Chain(v) => mk(
                Operator::Chain,
                v.iter().map(|e| e.assemble_operand(wrap)).collect(),
            ),
            Expr::Assign(op, n, e) => mk(
                op.operator(),
                vec![
                    mk(
                        Operator::VariableIdentifierWrite {
                            identifier: n.clone(),
                        },
                        vec![],
                    ),
                    e.assemble_operand(wrap),
                ],
            ),
            Expr::AssignTo(op, t, e) => mk(
                op.operator(),
                vec![t.assemble_operand(wrap), e.assemble_operand(wrap)],
            ),
            Expr::Dangling(b, l) => mk(b.operator(), vec![l.assemble_operand(wrap)]),
            Expr::Extra(root, a, v) => {
                let inner = a.assemble_inner(wrap);
                let mut n = if *root { mk(Operator::RootNode, vec![inner]) } else { inner };
                for e in v {
                    n.children_mut().push(e.assemble_operand(wrap));
                }
                n
            },
        }
    }

    // ---------------------------------------------------------------- JSON

    pub fn to_json(&self) -> Json {
        match self {
            Expr::Lit(v) => Json::obj().with("lit", value_to_json(v)),
            Expr::Read(n) => Json::obj().with("read", Json::s(n.clone())),
            Expr::WriteName(n) => Json::obj().with("write_name", Json::s(n.clone())),
            Expr::Call(f, a) => Json::obj().with("call", Json::s(f.clone())).with(
                "arg",
                match a {
                    None => Json::Null,
                    Some(a) => a.to_json(),
                },
            ),
            Expr::Un(u, a) => Json::obj()
                .with("un", Json::s(u.sym()))
                .with("x", a.to_json()),
            Expr::Bin(b, l, r) => Json::obj()
                .with("bin", Json::s(b.sym()))
                .with("l", l.to_json())
                .with("r", r.to_json()),
            Expr::Tuple(v) => Json::obj().with("tuple", Json::Arr(v.iter().map(|e| e.to_json()).collect())),
            Expr::Chain(v) => Json::obj().with("chain", Json::Arr(v.iter().map(|e| e.to_json()).collect())),
            Expr::Assign(op, n, e) => Json::obj()
                .with("assign", Json::s(op.sym()))
                .with("name", Json::s(n.clone()))
                .with("rhs", e.to_json()),
            Expr::AssignTo(op, t, e) => Json::obj()
                .with("assign_to", Json::s(op.sym()))
                .with("target", t.to_json())
                .with("rhs", e.to_json()),
            Expr::Dangling(b, l) => Json::obj()
                .with("dangling", Json::s(b.sym()))
                .with("l", l.to_json()),
            Expr::Extra(root, a, v) => Json::obj()
                .with("extra_children_of", Json::s(if *root { "root" } else { "node" }))
                .with("inner", a.to_json())
                .with("extra", Json::Arr(v.iter().map(|e| e.to_json()).collect())),
        }
    }

    pub fn from_json(j: &Json) -> Result<Expr, String> {
        if let Some(v) = j.get("lit") {
            return Ok(Expr::Lit(value_from_json(v)?));
        }
        if let Some(n) = j.get("read") {
            return Ok(Expr::Read(n.as_str().ok_or("bad read")?.to_string()));
        }
        if let Some(n) = j.get("write_name") {
            return Ok(Expr::WriteName(n.as_str().ok_or("bad write_name")?.to_string()));
        }
        if let Some(f) = j.get("call") {
            let arg = match j.get("arg") {
                None | Some(Json::Null) => None,
                Some(a) => Some(Box::new(Expr::from_json(a)?)),
            };
            return Ok(Expr::Call(f.as_str().ok_or("bad call")?.to_string(), arg));
        }
        if let Some(u) = j.get("un") {
            let u = Un::from_sym(u.as_str().ok_or("bad un")?).ok_or("unknown unary operator")?;
            return Ok(Expr::Un(u, Box::new(Expr::from_json(j.field("x")?)?)));
        }
        if let Some(b) = j.get("bin") {
            let b = Bin::from_sym(b.as_str().ok_or("bad bin")?).ok_or("unknown binary operator")?;
            return Ok(Expr::Bin(
                b,
                Box::new(Expr::from_json(j.field("l")?)?),
                Box::new(Expr::from_json(j.field("r")?)?),
            ));
        }
        if let Some(v) = j.get("tuple") {
            let mut out = Vec::new();
            for e in v.as_arr().ok_or("bad tuple")? {
                out.push(Expr::from_json(e)?);
            }
            return Ok(Expr::Tuple(out));
        }
        if let Some(v) = j.get("chain") {
            let mut out = Vec::new();
            for e in v.as_arr().ok_or("bad chain")? {
                out.push(Expr::from_json(e)?);
            }
            return Ok(Expr::Chain(out));
        }
        if let Some(op) = j.get("assign") {
            let op = AOp::from_sym(op.as_str().ok_or("bad assign")?)
                .ok_or("unknown assignment operator")?;
            return Ok(Expr::Assign(
                op,
                j.str_field("name")?.to_string(),
                Box::new(Expr::from_json(j.field("rhs")?)?),
            ));
        }
        if let Some(k) = j.get("extra_children_of") {
            let mut v = Vec::new();
            for e in j.arr_field("extra")? {
                v.push(Expr::from_json(e)?);
            }
            return Ok(Expr::Extra(
                k.as_str() == Some("root"),
                Box::new(Expr::from_json(j.field("inner")?)?),
                v,
            ));
        }
        if let Some(b) = j.get("dangling") {
            let b = Bin::from_sym(b.as_str().ok_or("bad dangling")?).ok_or("unknown binary operator")?;
            return Ok(Expr::Dangling(b, Box::new(Expr::from_json(j.field("l")?)?)));
        }
        if let Some(op) = j.get("assign_to") {
            let op = AOp::from_sym(op.as_str().ok_or("bad assign_to")?)
                .ok_or("unknown assignment operator")?;
            return Ok(Expr::AssignTo(
                op,
                Box::new(Expr::from_json(j.field("target")?)?),
                Box::new(Expr::from_json(j.field("rhs")?)?),
            ));
        }
        Err(format!("unrecognised expression {}", j.to_compact()))
    }

    // ---------------------------------------------------------------- shrinking

    /// One-step simplifications of this expression, simplest first. Each candidate is strictly
    /// smaller (by `size`) or equal size but simpler (literal replaced by a smaller literal).
    pub fn shrink_candidates(&self) -> Vec<Expr> {
        let mut out: Vec<Expr> = Vec::new();
        // 1. replace the whole thing by a trivial literal / hoist a child
        match self {
            Expr::Lit(v) => {
                for s in shrink_value(v) {
                    out.push(Expr::Lit(s));
                }
            },
            Expr::Read(_) => {
                out.push(Expr::Lit(Value::Int(0)));
            },
            Expr::WriteName(n) => {
                out.push(Expr::Lit(Value::String(n.clone())));
            },
            _ => {
                out.push(Expr::Lit(Value::Int(0)));
                out.push(Expr::Lit(Value::Boolean(true)));
                for c in self.children() {
                    out.push(c.clone());
                }
            },
        }
        // 2. drop elements of sequences
        match self {
            Expr::Tuple(v) | Expr::Chain(v) if v.len() > 1 => {
                for i in 0..v.len() {
                    let mut w = v.clone();
                    w.remove(i);
                    let e = if w.len() == 1 {
                        w.pop().unwrap()
                    } else if matches!(self, Expr::Tuple(_)) {
                        Expr::Tuple(w)
                    } else {
                        Expr::Chain(w)
                    };
                    out.push(e);
                }
            },
            Expr::Call(f, Some(_)) => out.push(Expr::Call(f.clone(), None)),
            Expr::Assign(op, n, e) if *op != AOp::Assign => {
                out.push(Expr::Assign(AOp::Assign, n.clone(), e.clone()))
            },
            Expr::AssignTo(op, _, e) => {
                for n in ["a", "b", "c"] {
                    out.push(Expr::Assign(*op, n.to_string(), e.clone()));
                }
            },
            _ => {},
        }
        // 3. recurse: shrink one child in place
        let n = self.children().len();
        for i in 0..n {
            let child = self.children()[i].clone();
            for c in child.shrink_candidates() {
                out.push(self.with_child(i, c));
            }
        }
        out
    }

    pub fn children(&self) -> Vec<&Expr> {
        match self {
            Expr::Lit(_) | Expr::Read(_) | Expr::WriteName(_) => vec![],
            Expr::Call(_, a) => a.iter().map(|b| &**b).collect(),
            Expr::Un(_, a) => vec![a],
            Expr::Bin(_, a, b) => vec![a, b],
            Expr::Tuple(v) | Expr::Chain(v) => v.iter().collect(),
            Expr::Assign(_, _, e) => vec![e],
            Expr::AssignTo(_, t, e) => vec![t, e],
            Expr::Dangling(_, a) => vec![a],
            Expr::Extra(_, a, v) => std::iter::once(&**a).chain(v.iter()).collect(),
        }
    }

    fn with_child(&self, i: usize, c: Expr) -> Expr {
        match self {
            Expr::Lit(_) | Expr::Read(_) | Expr::WriteName(_) => self.clone(),
            Expr::Call(f, _) => Expr::Call(f.clone(), Some(Box::new(c))),
            Expr::Un(u, _) => Expr::Un(*u, Box::new(c)),
            Expr::Bin(b, l, r) => {
                if i == 0 {
                    Expr::Bin(*b, Box::new(c), r.clone())
                } else {
                    Expr::Bin(*b, l.clone(), Box::new(c))
                }
            },
            Expr::Tuple(v) => {
                let mut w = v.clone();
                w[i] = c;
                Expr::Tuple(w)
            },
            Expr::Chain(v) => {
                let mut w = v.clone();
                w[i] = c;
                Expr::Chain(w)
            },
            Expr::Assign(op, n, _) => Expr::Assign(*op, n.clone(), Box::new(c)),
            Expr::Dangling(b, _) => Expr::Dangling(*b, Box::new(c)),
            Expr::Extra(root, a, v) => {
                if i == 0 {
                    Expr::Extra(*root, Box::new(c), v.clone())
                } else {
                    let mut w = v.clone();
                    w[i - 1] = c;
                    Expr::Extra(*root, a.clone(), w)
                }
            },
            Expr::AssignTo(op, t, e) => {
                if i == 0 {
                    Expr::AssignTo(*op, Box::new(c), e.clone())
                } else {
                    Expr::AssignTo(*op, t.clone(), Box::new(c))
                }
            },
        }
    }
}

fn shrink_value(v: &V) -> Vec<V> {
    match v {
        Value::Int(0) => vec![],
        Value::Int(1) => vec![Value::Int(0)],
        Value::Int(_) => vec![Value::Int(0), Value::Int(1)],
        Value::Boolean(_) => vec![],
        Value::Float(f) if *f == 1.5 => vec![Value::Int(0)],
        Value::Float(_) => vec![Value::Int(0), Value::Float(1.5)],
        Value::String(s) if s.is_empty() => vec![Value::Int(0)],
        Value::String(_) => vec![Value::Int(0), Value::String(String::new())],
        Value::Tuple(t) if t.is_empty() => vec![Value::Int(0)],
        Value::Tuple(t) => {
            let mut out = vec![Value::Int(0), Value::Tuple(vec![])];
            for i in 0..t.len() {
                let mut w = t.clone();
                w.remove(i);
                out.push(Value::Tuple(w));
            }
            out
        },
        Value::Empty => vec![Value::Int(0)],
    }
}

fn render_seq(v: &[Expr], sep: &str, out: &mut String) {
    for (i, e) in v.iter().enumerate() {
        if i > 0 {
            out.push_str(sep);
        }
        match e {
            // assignments are fine bare as sequence elements; other compound elements of a
            // sequence are rendered as operands (parenthesised)
            Expr::Assign(..) | Expr::AssignTo(..) => e.render_bare(out),
            // `,` binds tighter than `;`: a tuple as the last chain element needs no parentheses
            // (only as the LAST element: after the tuple has begun, a further `;` is taken into
            // its last element by the tree builder)
            Expr::Tuple(t) if sep == "; " && i + 1 == v.len() && t.len() >= 2 && LOOSE.with(|x| x.get()) => {
                render_seq(t, ", ", out)
            },
            // ... and so does every operator
            Expr::Bin(..) | Expr::Un(..) if LOOSE.with(|x| x.get()) => e.render_bare(out),
            _ => e.render_operand(out),
        }
    }
}

fn render_value(v: &V, out: &mut String) {
    use std::fmt::Write as _;
    match v {
        Value::Int(i) => {
            if *i < 0 {
                // rendered as a negation; the parser yields Neg(Const)
                let _ = write!(out, "-{}", i.unsigned_abs());
            } else {
                let _ = write!(out, "{}", i);
            }
        },
        Value::Float(f) => {
            let _ = write!(out, "{:?}", f);
        },
        Value::Boolean(b) => {
            let _ = write!(out, "{}", b);
        },
        Value::String(s) => {
            out.push('"');
            for c in s.chars() {
                match c {
                    '"' => out.push_str("\\\""),
                    '\\' => out.push_str("\\\\"),
                    c => out.push(c),
                }
            }
            out.push('"');
        },
        Value::Tuple(t) => {
            out.push('(');
            for (i, x) in t.iter().enumerate() {
                if i > 0 {
                    out.push_str(", ");
                }
                let e = Expr::Lit(x.clone());
                e.render_operand(out);
            }
            out.push(')');
        },
        Value::Empty => out.push_str("()"),
    }
}

thread_local! {
    static LOOSE: std::cell::Cell<bool> = const { std::cell::Cell::new(false) };
}

thread_local! {
    static LEAF: Node = {
        let mut root = build_operator_tree::<DefaultNumericTypes>("0").expect("seed tree");
        root.children_mut().pop().expect("seed leaf")
    };
}

/// A node with the given operator and children, made from a cloned seed leaf through the public
/// mutable accessors (no tokenizer, no tree builder).
pub fn mk(op: Operator, children: Vec<Node>) -> Node {
    let mut n = LEAF.with(|l| l.clone());
    *n.operator_mut() = op;
    *n.children_mut() = children;
    n
}

/// True if the value can be written as a literal the tokenizer reads back exactly (used to decide
/// whether a program is eligible for the parsed form).
pub fn value_is_renderable(v: &V) -> bool {
    match v {
        Value::Int(i) => *i != i64::MIN,
        Value::Float(f) => f.is_finite(),
        Value::String(_) | Value::Boolean(_) | Value::Empty => true,
        // a one-element tuple literal `(x)` is just `x`, and `()` is Empty
        Value::Tuple(t) => t.len() >= 2 && t.iter().all(value_is_renderable),
    }
}

impl Expr {
    /// True if rendering and parsing this program is expected to give a well-formed tree.
    pub fn is_renderable(&self) -> bool {
        match self {
            Expr::Lit(v) => value_is_renderable(v),
            // (names only the API can bind cannot be spelled in source text)
            Expr::Read(n) => !crate::env::API_ONLY_NAMES.contains(&n.as_str()),
            Expr::Call(_, a) => a.as_ref().map(|a| a.is_renderable()).unwrap_or(true),
            Expr::Un(_, a) => a.is_renderable(),
            Expr::Bin(_, a, b) => a.is_renderable() && b.is_renderable(),
            Expr::Tuple(v) | Expr::Chain(v) => v.len() >= 2 && v.iter().all(|e| e.is_renderable()),
            Expr::Assign(_, n, e) => !crate::env::API_ONLY_NAMES.contains(&n.as_str()) && e.is_renderable(),
            // assembled only: how the parser groups a dangling operator is not this check's business
            Expr::Dangling(..) | Expr::Extra(..) | Expr::WriteName(_) => false,
            // a bare identifier before `=` would be read as the variable itself
            Expr::AssignTo(_, t, e) => {
                !matches!(**t, Expr::Read(_)) && t.is_renderable() && e.is_renderable()
            },
        }
    }
}
