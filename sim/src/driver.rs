//! Batch driver: splits a batch of run indices over worker *processes*, merges their counters,
//! minimises and re-confirms violations in fresh processes, matches known findings, writes the
//! evidence file and decides the exit code.
//!
//! Exit codes: 0 held; 1 violation (`VIOLATION property=<id> replay=<path>` on stdout);
//! 2 harness error.

use crate::json::Json;
use crate::rng::mix;
use crate::stats::Stats;
use std::collections::HashMap;
use std::fs;
use std::io::Write as _;
use std::path::{Path, PathBuf};
use std::process::{Command, Stdio};
use std::time::Instant;

pub const VERIF_ROOT: &str = "/verif";
pub const DEFAULT_SEED: u64 = 20260101;

pub fn batch_seed_from_env() -> u64 {
    match std::env::var("VERIF_SEED") {
        Ok(s) => match s.trim().parse::<u64>() {
            Ok(v) => v,
            Err(_) => match s.trim().parse::<i64>() {
                Ok(v) => v as u64,
                Err(_) => crate::rng::hash_str(&s),
            },
        },
        Err(_) => DEFAULT_SEED,
    }
}

pub fn run_seed(batch_seed: u64, run_index: u64) -> u64 {
    mix(batch_seed, run_index)
}

/// What one worker process hands back to the parent.
#[derive(Default)]
pub struct WorkerOut {
    pub stats: Stats,
    pub samples: Vec<Json>,
    /// unminimised replay bodies, one per violating run
    pub violations: Vec<Json>,
    /// (content hash, weight): distinct non-trivial cases explored
    pub distinct: Vec<(u64, u32)>,
    /// order-sensitive digest of everything the runs observed (determinism self-test)
    pub digest: u64,
    pub runs: u64,
}

impl WorkerOut {
    pub fn absorb_digest(&mut self, run_index: u64, d: u64) {
        // order-insensitive across runs (xor of mixed pairs), so that it does not depend on how
        // the batch was split over workers
        self.digest ^= mix(d, run_index.wrapping_add(0x9E37));
    }

    pub fn write(&self, path: &Path) -> std::io::Result<()> {
        let j = Json::obj()
            .with("runs", Json::u(self.runs))
            .with("digest", Json::s(format!("{:016x}", self.digest)))
            .with("stats", self.stats.to_json())
            .with("samples", Json::Arr(self.samples.clone()))
            .with("violations", Json::Arr(self.violations.clone()));
        fs::write(path, j.to_compact())?;
        let mut bytes = Vec::with_capacity(self.distinct.len() * 12);
        for (h, w) in &self.distinct {
            bytes.extend_from_slice(&h.to_le_bytes());
            bytes.extend_from_slice(&w.to_le_bytes());
        }
        fs::write(path.with_extension("distinct"), bytes)
    }

    pub fn read(path: &Path) -> Result<WorkerOut, String> {
        let text = fs::read_to_string(path).map_err(|e| format!("{}: {}", path.display(), e))?;
        let j = Json::parse(&text)?;
        let mut out = WorkerOut {
            runs: j.u64_field("runs")?,
            digest: u64::from_str_radix(j.str_field("digest")?, 16).map_err(|e| e.to_string())?,
            stats: Stats::from_json(j.field("stats")?),
            samples: j.arr_field("samples")?.to_vec(),
            violations: j.arr_field("violations")?.to_vec(),
            distinct: Vec::new(),
        };
        let bytes = fs::read(path.with_extension("distinct")).map_err(|e| e.to_string())?;
        for c in bytes.chunks_exact(12) {
            let h = u64::from_le_bytes(c[0..8].try_into().unwrap());
            let w = u32::from_le_bytes(c[8..12].try_into().unwrap());
            out.distinct.push((h, w));
        }
        Ok(out)
    }
}

#[derive(Clone, Debug)]
pub struct BatchSpec {
    pub prop: String,
    /// sub-batch name (e.g. "seq", "threaded"); part of the worker command line
    pub part: String,
    pub tier: String,
    pub batch_seed: u64,
    pub runs: u64,
    pub workers: usize,
    /// binary that implements `worker <prop> <part> ...`
    pub exe: PathBuf,
}

pub struct BatchResult {
    pub out: WorkerOut,
    pub wall_s: f64,
    pub distinct_nontrivial: u64,
    pub distinct_cases: u64,
}

pub fn work_dir() -> PathBuf {
    let p = PathBuf::from(VERIF_ROOT).join("target").join("work");
    let _ = fs::create_dir_all(&p);
    p
}

pub fn harness_error(msg: &str) -> ! {
    eprintln!("HARNESS-ERROR: {}", msg);
    std::process::exit(2);
}

/// Runs a batch over worker processes and merges the results.
pub fn run_batch(spec: &BatchSpec) -> BatchResult {
    let start = Instant::now();
    let workers = spec.workers.max(1).min(spec.runs.max(1) as usize);
    let dir = work_dir();
    let tag = format!(
        "{}-{}-{}-{}-{}",
        spec.prop,
        spec.part,
        spec.tier,
        spec.batch_seed,
        std::process::id()
    );
    let mut children = Vec::new();
    // interleaved slices: worker w executes run indices w, w+workers, ...
    for w in 0..workers {
        let out_path = dir.join(format!("{}-w{}.json", tag, w));
        let _ = fs::remove_file(&out_path);
        let child = Command::new(&spec.exe)
            .arg("worker")
            .arg(&spec.prop)
            .arg(&spec.part)
            .arg("--tier")
            .arg(&spec.tier)
            .arg("--batch-seed")
            .arg(spec.batch_seed.to_string())
            .arg("--runs")
            .arg(spec.runs.to_string())
            .arg("--stride")
            .arg(workers.to_string())
            .arg("--offset")
            .arg(w.to_string())
            .arg("--out")
            .arg(&out_path)
            .stdin(Stdio::null())
            .stdout(Stdio::inherit())
            .stderr(Stdio::inherit())
            .spawn()
            .unwrap_or_else(|e| harness_error(&format!("cannot spawn worker: {}", e)));
        children.push((child, out_path));
    }
    let mut merged = WorkerOut::default();
    let mut distinct: HashMap<u64, u32> = HashMap::new();
    // wall-clock guard: a worker that hangs (a thread blocked outside the simulator) must end as a
    // harness error, never as a silent hang
    let limit_s: u64 = std::env::var("VERIF_BATCH_TIMEOUT_S")
        .ok()
        .and_then(|s| s.parse().ok())
        .unwrap_or(if spec.tier == "thorough" { 6 * 3600 } else { 1500 });
    for (widx, (mut child, out_path)) in children.into_iter().enumerate() {
        let status = loop {
            match child.try_wait() {
                Ok(Some(st)) => break st,
                Ok(None) => {
                    if start.elapsed().as_secs() > limit_s {
                        let _ = child.kill();
                        harness_error(&format!(
                            "worker for {} {} exceeded the wall-clock limit of {} s (blocked outside the simulator?)",
                            spec.prop, spec.part, limit_s
                        ));
                    }
                    std::thread::sleep(std::time::Duration::from_millis(20));
                },
                Err(e) => harness_error(&format!("worker wait: {}", e)),
            }
        };
        if !status.success() {
            harness_error(&format!(
                "worker for {} {} exited with {}",
                spec.prop, spec.part, status
            ));
        }
        let out = WorkerOut::read(&out_path)
            .unwrap_or_else(|e| harness_error(&format!("worker output unreadable: {}", e)));
        let _ = fs::remove_file(&out_path);
        let _ = fs::remove_file(out_path.with_extension("distinct"));
        merged.stats.merge(&out.stats);
        merged.runs += out.runs;
        merged.digest ^= out.digest;
        for s in out.samples {
            if merged.samples.len() < 12 {
                merged.samples.push(s);
            }
        }
        for mut v in out.violations {
            v.set(
                "worker_slice",
                Json::obj()
                    .with("prop", Json::s(spec.prop.clone()))
                    .with("part", Json::s(spec.part.clone()))
                    .with("tier", Json::s(spec.tier.clone()))
                    .with("stride", Json::u(workers as u64))
                    .with("offset", Json::u(widx as u64)),
            );
            merged.violations.push(v);
        }
        for (h, w) in out.distinct {
            let e = distinct.entry(h).or_insert(0);
            if *e < w {
                *e = w;
            }
        }
    }
    merged.violations.sort_by_key(|v| v.get("run_index").and_then(|x| x.as_u64()).unwrap_or(u64::MAX));
    let distinct_nontrivial: u64 = distinct.values().map(|w| *w as u64).sum();
    let distinct_cases = distinct.values().filter(|w| **w > 0).count() as u64;
    BatchResult {
        out: merged,
        wall_s: start.elapsed().as_secs_f64(),
        distinct_nontrivial,
        distinct_cases,
    }
}

// ------------------------------------------------------------------------- known findings

pub struct KnownFindings {
    pub findings: Vec<Json>,
}

impl KnownFindings {
    pub fn load() -> KnownFindings {
        let path = PathBuf::from(VERIF_ROOT).join("known_findings.json");
        match fs::read_to_string(&path) {
            Ok(text) => match Json::parse(&text) {
                Ok(j) => KnownFindings {
                    findings: j
                        .get("findings")
                        .and_then(|f| f.as_arr())
                        .map(|a| a.to_vec())
                        .unwrap_or_default(),
                },
                Err(e) => harness_error(&format!("known_findings.json does not parse: {}", e)),
            },
            Err(_) => KnownFindings { findings: vec![] },
        }
    }

    /// A finding matches when property and class are equal and its `match` string is contained in
    /// the violation's signature.
    pub fn matches(&self, replay: &Json) -> Option<String> {
        let prop = replay.get("property").and_then(|p| p.as_str()).unwrap_or("");
        let class = replay.get("class").and_then(|p| p.as_str()).unwrap_or("");
        let sig = replay.get("signature").and_then(|p| p.as_str()).unwrap_or("");
        for f in &self.findings {
            let fp = f.get("property").and_then(|p| p.as_str()).unwrap_or("");
            let fc = f.get("class").and_then(|p| p.as_str()).unwrap_or("");
            let fm = f.get("match").and_then(|p| p.as_str()).unwrap_or("\u{0}");
            if fp == prop && fc == class && sig.contains(fm) {
                let what = f.get("what").and_then(|p| p.as_str()).unwrap_or(fm);
                return Some(what.to_string());
            }
        }
        None
    }
}

// ------------------------------------------------------------------------- replay files

pub fn replay_dir() -> PathBuf {
    let p = PathBuf::from(VERIF_ROOT).join("replays");
    let _ = fs::create_dir_all(&p);
    p
}

pub fn write_replay(replay: &Json) -> PathBuf {
    let prop = replay.get("property").and_then(|p| p.as_str()).unwrap_or("CXX");
    let class = replay
        .get("class")
        .and_then(|p| p.as_str())
        .unwrap_or("violation")
        .replace(|c: char| !c.is_ascii_alphanumeric(), "_");
    let seed = replay.get("run_seed").and_then(|p| p.as_u64()).unwrap_or(0);
    let path = replay_dir().join(format!("{}-{}-{:016x}.json", prop, class, seed));
    let mut f = fs::File::create(&path)
        .unwrap_or_else(|e| harness_error(&format!("cannot write replay file: {}", e)));
    f.write_all(replay.to_pretty().as_bytes())
        .unwrap_or_else(|e| harness_error(&format!("cannot write replay file: {}", e)));
    path
}

/// Replays a file in a fresh process; returns (exit code, stdout).
pub fn replay_in_fresh_process(exe: &Path, path: &Path) -> (i32, String) {
    let out = Command::new(exe)
        .arg("replay")
        .arg(path)
        .stdin(Stdio::null())
        .output()
        .unwrap_or_else(|e| harness_error(&format!("cannot spawn replay: {}", e)));
    (
        out.status.code().unwrap_or(-1),
        String::from_utf8_lossy(&out.stdout).to_string(),
    )
}

// ------------------------------------------------------------------------- evidence

pub struct Evidence {
    pub property_id: String,
    pub tier: String,
    pub seed: u64,
    pub level: String,
    pub coverage: Json,
    pub assumptions: Vec<String>,
    pub wall_s: f64,
    pub violations: u64,
}

impl Evidence {
    pub fn to_json(&self) -> Json {
        Json::obj()
            .with("property_id", Json::s(self.property_id.clone()))
            .with("tier", Json::s(self.tier.clone()))
            .with("seed", Json::u(self.seed))
            .with("level", Json::s(self.level.clone()))
            .with("coverage", self.coverage.clone())
            .with("assumptions", Json::arr_of_str(self.assumptions.iter().cloned()))
            .with("wall_s", Json::Float((self.wall_s * 1000.0).round() / 1000.0))
            .with("violations", Json::u(self.violations))
    }

    pub fn write(&self) {
        write_evidence_json(&self.property_id, &self.to_json());
    }
}

pub fn write_evidence_json(property_id: &str, j: &Json) {
    {
        let dir = PathBuf::from(VERIF_ROOT).join("evidence");
        let _ = fs::create_dir_all(&dir);
        let path = dir.join(format!("{}.json", property_id));
        fs::write(&path, j.to_pretty())
            .unwrap_or_else(|e| harness_error(&format!("cannot write evidence: {}", e)));
    }
}

/// Outcome of violation handling: how many are new (unlisted) violations.
pub struct Verdict {
    pub new_violations: u64,
    pub known: u64,
}

/// Handles the violations of a batch: minimise (callback), write replay, confirm in a fresh
/// process, match against known findings, print the lines the interface requires.
pub fn handle_violations(
    exe: &Path,
    violations: &[Json],
    minimise: &mut dyn FnMut(&Json) -> Json,
    max_reports: usize,
) -> Verdict {
    let known = KnownFindings::load();
    let mut verdict = Verdict {
        new_violations: 0,
        known: 0,
    };
    let mut reported_signatures: Vec<String> = Vec::new();
    for v in violations {
        if reported_signatures.len() >= max_reports {
            // count the rest without minimising
            verdict.new_violations += 1;
            continue;
        }
        let mut minimised = minimise(v);
        let sig = minimised
            .get("signature")
            .and_then(|s| s.as_str())
            .unwrap_or("")
            .to_string();
        if reported_signatures.contains(&sig) {
            continue;
        }
        reported_signatures.push(sig);
        let path = write_replay(&minimised);
        let (code, stdout) = replay_in_fresh_process(exe, &path);
        let class = minimised.get("class").and_then(|c| c.as_str()).unwrap_or("").to_string();
        let confirmed = code == 1 && stdout.contains(&format!("class={}", class));
        minimised.set("confirmed_in_fresh_process", Json::Bool(confirmed));
        let path = write_replay(&minimised);
        let mut path = path;
        if !confirmed {
            // (a) the minimiser may have lost what the violation depends on (or, with state that
            // depends on the process history, found a different class): try the original
            let class = v.get("class").and_then(|c| c.as_str()).unwrap_or("").to_string();
            let mut original = v.clone();
            let opath = write_replay(&original);
            let (ocode, ostdout) = replay_in_fresh_process(exe, &opath);
            if ocode == 1 && ostdout.contains(&format!("class={}", class)) {
                original.set("confirmed_in_fresh_process", Json::Bool(true));
                original.set("note", Json::s("the minimised form did not reproduce in a fresh process; this is the unminimised case"));
                path = write_replay(&original);
                minimised = original;
            } else {
                // (b) process-global state leaked from the runs that preceded it in the same worker
                // process: replay the worker's slice up to and including this run
                let mut with_prefix = v.clone();
                if let Some(slice) = v.get("worker_slice") {
                    with_prefix.set("process_prefix", slice.clone());
                }
                with_prefix.set("note", Json::s("reproduces only after the runs that preceded it in the same worker process (process-global state): the replay re-executes that slice of run seeds first"));
                let ppath = write_replay(&with_prefix);
                let (pcode, pstdout) = replay_in_fresh_process(exe, &ppath);
                if pcode == 1 && pstdout.contains(&format!("class={}", class)) {
                    with_prefix.set("confirmed_in_fresh_process", Json::Bool(true));
                    path = write_replay(&with_prefix);
                    minimised = with_prefix;
                } else {
                    if v.get("library_level_blocking").and_then(|b| b.as_bool()) == Some(true) {
                        // not exactly repeatable (see below): a few more attempts with the
                        // unminimised case before giving up on it
                        let mut hit = false;
                        for _ in 0..6 {
                            let (c, o) = replay_in_fresh_process(exe, &opath);
                            if c == 1 && o.contains(&format!("class={}", class)) {
                                hit = true;
                                break;
                            }
                        }
                        if hit {
                            let mut original = v.clone();
                            original.set("confirmed_in_fresh_process", Json::Bool(true));
                            original.set("note", Json::s("threads blocked in the library's own locks run outside the scheduler's control between their release and their next yield point; this replay reproduces the violation in some attempts, not in all"));
                            let path = write_replay(&original);
                            let prop = original.get("property").and_then(|p| p.as_str()).unwrap_or("");
                            if let Some(what) = known.matches(&original) {
                                println!("KNOWN-FINDING: property={} {}", prop, what);
                                verdict.known += 1;
                            } else {
                                println!("VIOLATION property={} replay={}", prop, path.display());
                                if let Some(s) = original.get("summary").and_then(|s| s.as_str()) {
                                    println!("  {}", s);
                                }
                                verdict.new_violations += 1;
                            }
                            continue;
                        }
                        // the run contained threads blocked in the library's own locks; between
                        // their release and their next yield point they ran outside the
                        // scheduler's control, so this schedule is not exactly repeatable.
                        // Not reported (other violations of the batch, or the Miri engine, decide)
                        eprintln!(
                            "note: a violation observed under library-level blocking did not reproduce from its replay file ({}); not reported",
                            ppath.display()
                        );
                        reported_signatures.pop();
                        continue;
                    }
                    // a violation that reproduces in no way from its replay file is a harness problem
                    eprintln!(
                        "HARNESS-ERROR: replay of {} did not reproduce, neither alone (exit {}) nor after its process prefix (exit {}, output: {})",
                        ppath.display(),
                        ocode,
                        pcode,
                        pstdout.trim()
                    );
                    std::process::exit(2);
                }
            }
        }
        let prop = minimised.get("property").and_then(|p| p.as_str()).unwrap_or("");
        if let Some(what) = known.matches(&minimised) {
            println!("KNOWN-FINDING: property={} {}", prop, what);
            verdict.known += 1;
        } else {
            println!("VIOLATION property={} replay={}", prop, path.display());
            if let Some(s) = minimised.get("summary").and_then(|s| s.as_str()) {
                println!("  {}", s);
            }
            verdict.new_violations += 1;
        }
    }
    verdict
}

/// Replays a violation together with the runs that preceded it in its worker process (same batch
/// seed, stride and offset), in a fresh worker process. Exit code semantics as for a replay.
pub fn prefix_replay(exe: &Path, replay: &Json) -> i32 {
    let slice = match replay.get("process_prefix") {
        Some(s) => s,
        None => return 2,
    };
    let target = replay.get("run_index").and_then(|x| x.as_u64()).unwrap_or(0);
    let class = replay.get("class").and_then(|x| x.as_str()).unwrap_or("");
    let out_path = work_dir().join(format!("prefix-replay-{}.json", std::process::id()));
    let status = Command::new(exe)
        .arg("worker")
        .arg(slice.get("prop").and_then(|x| x.as_str()).unwrap_or(""))
        .arg(slice.get("part").and_then(|x| x.as_str()).unwrap_or(""))
        .arg("--tier")
        .arg(slice.get("tier").and_then(|x| x.as_str()).unwrap_or("quick"))
        .arg("--batch-seed")
        .arg(replay.get("batch_seed").and_then(|x| x.as_u64()).unwrap_or(0).to_string())
        .arg("--runs")
        .arg((target + 1).to_string())
        .arg("--stride")
        .arg(slice.get("stride").and_then(|x| x.as_u64()).unwrap_or(1).to_string())
        .arg("--offset")
        .arg(slice.get("offset").and_then(|x| x.as_u64()).unwrap_or(0).to_string())
        .arg("--out")
        .arg(&out_path)
        .stdin(Stdio::null())
        .status();
    match status {
        Ok(s) if s.success() => {},
        _ => {
            eprintln!("HARNESS-ERROR: prefix replay worker failed");
            return 2;
        },
    }
    let out = match WorkerOut::read(&out_path) {
        Ok(o) => o,
        Err(e) => {
            eprintln!("HARNESS-ERROR: {}", e);
            return 2;
        },
    };
    let _ = fs::remove_file(&out_path);
    let _ = fs::remove_file(out_path.with_extension("distinct"));
    for v in &out.violations {
        if v.get("run_index").and_then(|x| x.as_u64()) == Some(target)
            && v.get("class").and_then(|x| x.as_str()) == Some(class)
        {
            println!(
                "VIOLATION property={} class={} run_index={} (reproduced after re-executing the {} preceding runs of its worker process)",
                v.get("property").and_then(|x| x.as_str()).unwrap_or(""),
                class,
                target,
                out.runs.saturating_sub(1)
            );
            if let Some(s) = v.get("summary").and_then(|s| s.as_str()) {
                println!("  {}", s);
            }
            return 1;
        }
    }
    println!("replay: no violation at run {} after its process prefix ({} runs)", target, out.runs);
    0
}

/// Parses `--key value` style worker arguments.
pub struct Args {
    pub positional: Vec<String>,
    pub named: HashMap<String, String>,
}

impl Args {
    pub fn parse(args: &[String]) -> Args {
        let mut positional = Vec::new();
        let mut named = HashMap::new();
        let mut i = 0;
        while i < args.len() {
            if let Some(k) = args[i].strip_prefix("--") {
                if i + 1 < args.len() {
                    named.insert(k.to_string(), args[i + 1].clone());
                    i += 2;
                } else {
                    named.insert(k.to_string(), String::new());
                    i += 1;
                }
            } else {
                positional.push(args[i].clone());
                i += 1;
            }
        }
        Args { positional, named }
    }

    pub fn u64(&self, key: &str) -> u64 {
        self.named
            .get(key)
            .and_then(|v| v.parse().ok())
            .unwrap_or_else(|| harness_error(&format!("missing or bad --{}", key)))
    }

    pub fn u64_or(&self, key: &str, default: u64) -> u64 {
        self.named.get(key).and_then(|v| v.parse().ok()).unwrap_or(default)
    }

    pub fn str(&self, key: &str) -> &str {
        self.named
            .get(key)
            .map(|s| s.as_str())
            .unwrap_or_else(|| harness_error(&format!("missing --{}", key)))
    }
}

/// Number of worker processes to use (VERIF_WORKERS overrides).
pub fn default_workers() -> usize {
    if let Ok(s) = std::env::var("VERIF_WORKERS") {
        if let Ok(n) = s.parse::<usize>() {
            return n.max(1);
        }
    }
    std::thread::available_parallelism().map(|n| n.get()).unwrap_or(4).min(16)
}
