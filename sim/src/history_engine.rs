//! Worker, replay, minimiser and evidence for C04 (operation histories on HashMapContext).

use crate::driver::{
    self, batch_seed_from_env, default_workers, handle_violations, run_batch, run_seed, Args,
    BatchSpec, Evidence, WorkerOut,
};
use crate::history::{gen_history, run_history, shrink_history, HCoverage, HFinding, History};
use crate::json::Json;
use crate::refint::Delegate;
use crate::rng::{stream, Fnv, STREAM_CONFIG, STREAM_SCHEDULE, STREAM_WORKLOAD};
use crate::stats::Stats;
use std::path::{Path, PathBuf};

pub fn gen_for_seed(seed: u64, d: &mut Delegate) -> History {
    let mut work = stream(seed, STREAM_WORKLOAD);
    let mut sched = stream(seed, STREAM_SCHEDULE);
    let mut conf = stream(seed, STREAM_CONFIG);
    gen_history(&mut work, &mut sched, &mut conf, d)
}

pub fn signature(h: &History, f: &HFinding) -> String {
    format!("{}|step{}|{}", f.class, f.step, h.render().join(" ; "))
}

pub fn replay_body(
    engine: &str,
    h: &History,
    f: &HFinding,
    batch_seed: u64,
    run_index: u64,
    seed: u64,
) -> Json {
    Json::obj()
        .with("property", Json::s("C04"))
        .with("engine", Json::s(engine))
        .with("class", Json::s(f.class.clone()))
        .with("batch_seed", Json::u(batch_seed))
        .with("run_index", Json::u(run_index))
        .with("run_seed", Json::u(seed))
        .with("failing_step", Json::u(f.step as u64))
        .with("failing_actor", Json::u(f.actor as u64))
        .with("readable", Json::arr_of_str(h.render()))
        .with("history", h.to_json())
        .with("expected", Json::s(f.expected.clone()))
        .with("actual", Json::s(f.actual.clone()))
        .with("signature", Json::s(signature(h, f)))
        .with(
            "summary",
            Json::s(format!(
                "{} at step {} (actor {}) of [{}]: expected {} but got {}",
                f.class,
                f.step,
                f.actor,
                h.render().join(" ; "),
                f.expected,
                f.actual
            )),
        )
        .with("minimised", Json::Bool(false))
}

pub fn run_one(batch_seed: u64, run_index: u64, out: &mut WorkerOut, d: &mut Delegate) {
    let seed = run_seed(batch_seed, run_index);
    let h = gen_for_seed(seed, d);
    let mut cov = HCoverage::default();
    let found = run_history(&h, &mut out.stats, d, Some(&mut cov));
    out.runs += 1;
    out.stats.inc("histories");
    let mut hh = Fnv::new();
    hh.u64(h.hash());
    for (state, kind, ok) in &cov.cells {
        let mut c = Fnv::new();
        c.u64(*state as u64);
        c.str(kind);
        c.u64(*ok as u64);
        let cell = c.finish();
        hh.u64(cell);
        // non-trivial: some variable/function bound or switch set before the step, or the step
        // is not a pure read on the pristine state
        let trivial = *state == 0 && (kind.starts_with("get_value") || kind.starts_with("iter_"));
        out.distinct.push((cell, if trivial { 0 } else { 1 }));
    }
    if out.samples.len() < 2 && h.steps.len() >= 5 && h.steps.len() <= 12 && run_index % 5 == 0 {
        out.samples.push(
            Json::obj()
                .with("run_index", Json::u(run_index))
                .with("run_seed", Json::u(seed))
                .with("history", Json::arr_of_str(h.render())),
        );
    }
    if let Some(f) = &found {
        hh.str(&f.class);
        out.violations
            .push(replay_body("history", &h, f, batch_seed, run_index, seed));
    }
    out.absorb_digest(run_index, hh.finish());
}

pub fn worker(args: &Args) {
    crate::env::install_quiet_panic_hook();
    let batch_seed = args.u64("batch-seed");
    let runs = args.u64("runs");
    let stride = args.u64("stride");
    let offset = args.u64("offset");
    let out_path = PathBuf::from(args.str("out"));
    let mut out = WorkerOut::default();
    let mut d = Delegate::new();
    let mut i = offset;
    while i < runs {
        run_one(batch_seed, i, &mut out, &mut d);
        i += stride;
        if out.violations.len() >= 20 {
            // enough to report; the rest of the slice would only repeat it
            break;
        }
    }
    out.write(&out_path)
        .unwrap_or_else(|e| driver::harness_error(&format!("cannot write worker output: {}", e)));
}

pub fn replay(replay: &Json) -> i32 {
    crate::env::install_quiet_panic_hook();
    let h = match replay.field("history").and_then(History::from_json) {
        Ok(h) => h,
        Err(e) => {
            eprintln!("HARNESS-ERROR: {}", e);
            return 2;
        },
    };
    let mut stats = Stats::new();
    let mut d = Delegate::new();
    match run_history(&h, &mut stats, &mut d, None) {
        None => {
            println!("replay: no violation (property C04, {} steps)", h.steps.len());
            0
        },
        Some(f) => {
            println!(
                "VIOLATION property=C04 class={} step={} actor={}",
                f.class, f.step, f.actor
            );
            for l in h.render() {
                println!("  {}", l);
            }
            println!("  expected: {}", f.expected);
            println!("  actual:   {}", f.actual);
            1
        },
    }
}

/// Greedy minimisation with an arbitrary executor (sequential here, threaded in verifsim_mt).
pub fn minimise_with(
    replay: &Json,
    engine: &str,
    run: &mut dyn FnMut(&History) -> Option<HFinding>,
) -> Json {
    let mut h = match replay.field("history").and_then(History::from_json) {
        Ok(h) => h,
        Err(_) => return replay.clone(),
    };
    let mut best = match run(&h) {
        Some(f) => f,
        None => return replay.clone(),
    };
    // everything after the failing step is irrelevant
    h.steps.truncate(best.step + 1);
    let mut steps = 0u32;
    let mut progress = true;
    while progress && steps < 4000 {
        progress = false;
        for cand in shrink_history(&h) {
            if cand.weight() >= h.weight() && cand.steps.len() >= h.steps.len() {
                // only accept strictly simpler candidates (actor renumbering is allowed below)
                if cand.steps.iter().map(|s| s.actor).sum::<usize>()
                    >= h.steps.iter().map(|s| s.actor).sum::<usize>()
                {
                    continue;
                }
            }
            steps += 1;
            if let Some(f) = run(&cand) {
                if f.class == best.class {
                    h = cand;
                    h.steps.truncate(f.step + 1);
                    best = f;
                    progress = true;
                    break;
                }
            }
        }
    }
    let mut body = replay_body(
        engine,
        &h,
        &best,
        replay.get("batch_seed").and_then(|x| x.as_u64()).unwrap_or(0),
        replay.get("run_index").and_then(|x| x.as_u64()).unwrap_or(0),
        replay.get("run_seed").and_then(|x| x.as_u64()).unwrap_or(0),
    );
    body.set("minimised", Json::Bool(true));
    body.set("minimisation_steps", Json::u(steps as u64));
    if let Some(orig) = replay.get("readable") {
        body.set("original_history", orig.clone());
    }
    for k in ["schedule", "config"] {
        if let Some(v) = replay.get(k) {
            body.set(k, v.clone());
        }
    }
    body
}

pub fn minimise(replay: &Json) -> Json {
    let mut stats = Stats::new();
    let mut d = Delegate::new();
    minimise_with(replay, "history", &mut |h| run_history(h, &mut stats, &mut d, None))
}

pub fn tier_runs(tier: &str, part: &str) -> u64 {
    let base = match (tier, part) {
        ("thorough", "seq") => 16_000_000,
        ("thorough", _) => 300_000,
        (_, "seq") => 60_000,
        (_, _) => 1_500,
    };
    let key = if part == "seq" { "VERIF_RUNS" } else { "VERIF_RUNS_MT" };
    match std::env::var(key) {
        Ok(s) => s.parse().unwrap_or(base),
        Err(_) => base,
    }
}

/// Total number of (abstract state, op kind, outcome) cells: 7^3 * 4 * 2 states.
pub const ABSTRACT_STATES: u64 = 343 * 8 * 2;

/// Parent: sequential batch (this binary) + threaded batch (verifsim_mt, if given).
pub fn check(tier: &str, exe: &Path, mt_exe: Option<&Path>) -> i32 {
    let batch_seed = batch_seed_from_env();
    let runs = tier_runs(tier, "seq");
    println!(
        "C04 {}: VERIF_SEED={} sequential histories={} workers={}",
        tier,
        batch_seed,
        runs,
        default_workers()
    );
    let spec = BatchSpec {
        prop: "C04".to_string(),
        part: "seq".to_string(),
        tier: tier.to_string(),
        batch_seed,
        runs,
        workers: default_workers(),
        exe: exe.to_path_buf(),
    };
    let res = run_batch(&spec);
    let mut verdict = handle_violations(exe, &res.out.violations, &mut |v| minimise(v), 3);
    let mut total_wall = res.wall_s;
    let mut mt_json = Json::obj().with("ran", Json::Bool(false));
    let mut samples = res.out.samples.clone();
    let mut mt_stats = Stats::new();
    if let Some(mt) = mt_exe {
        let mt_runs = tier_runs(tier, "threaded");
        println!("C04 {}: threaded histories={} (scheduler-interleaved actors)", tier, mt_runs);
        let spec = BatchSpec {
            prop: "C04".to_string(),
            part: "threaded".to_string(),
            tier: tier.to_string(),
            batch_seed,
            runs: mt_runs,
            workers: (default_workers() / 4).max(1),
            exe: mt.to_path_buf(),
        };
        let r = run_batch(&spec);
        // minimisation of threaded violations is delegated to the threaded binary
        let v = handle_violations(mt, &r.out.violations, &mut |v| minimise_via(mt, v), 3);
        verdict.new_violations += v.new_violations;
        verdict.known += v.known;
        total_wall += r.wall_s;
        mt_stats = r.out.stats.clone();
        for s in r.out.samples.iter().take(2) {
            samples.push(s.clone());
        }
        mt_json = Json::obj()
            .with("ran", Json::Bool(true))
            .with("histories", Json::u(r.out.runs))
            .with("scheduler_steps", Json::u(mt_stats.get("sched.steps")))
            .with("preemptions", Json::u(mt_stats.get("fault_fired.sched_preempt")))
            .with("thread_migrations", Json::u(mt_stats.get("fault_fired.thread_migration")))
            .with("distinct_schedules", Json::u(r.distinct_cases))
            .with("hook_sites_hit", mt_stats.group("site"))
            .with("event_log_digest", Json::s(format!("{:016x}", r.out.digest)))
            .with("wall_s", Json::Float(r.wall_s));
    }
    let s = &res.out.stats;
    let mut stuck = Vec::new();
    for p in [
        "fault_fired.type_mismatch",
        "fault_fired.type_mismatch_or_operand_type",
        "fault_fired.userfn_error",
        "fault_fired.arith_error",
        "fault_fired.unbound_read",
        "fault_fired.unknown_fn",
        "fault_fired.context_not_mutable",
        "fault_fired.clear",
        "fault_fired.clone_fork",
        "fault_fired.clone_overwrite",
        "fault_fired.reset",
        "op.opassign_equiv",
        "op.bulk_set",
        "op.bulk_failed_calls",
        "op.big_strings",
        "op.reset_context_map_macro",
        "op.set_function",
        "op.call_function",
        "op.set_builtin_functions_disabled",
    ] {
        if s.get(p) == 0 {
            stuck.push(p.to_string());
        }
    }
    if mt_exe.is_some() {
        for p in ["fault_fired.sched_preempt", "fault_fired.thread_migration"] {
            if mt_stats.get(p) == 0 {
                stuck.push(p.to_string());
            }
        }
    }
    let hours = total_wall / 3600.0;
    let total_runs = res.out.runs + mt_stats.get("histories");
    let coverage = Json::obj()
        .with("evaluations", Json::u(s.get("steps") + mt_stats.get("steps")))
        .with("distinct_nontrivial", Json::u(res.distinct_nontrivial))
        .with("rule", Json::s("histories of up to 40 operations by up to 4 actors (each owning one real HashMapContext and its abstract model) drawn from the run seed: set_value, eval_with_context_mut / eval_with_context of single-statement programs (all 9 assignment operators x 6 value types, failing right-hand sides, injected user-function errors), get_value, listings, clear_variables / clear_functions / clear, set_function, call_function, builtin switch, fork (clone-and-continue), overwrite by a clone, reset, and the op-assign equivalence check; after EVERY step the return value and the complete observable state of EVERY actor are compared with the model. evaluations = executed steps. distinct_nontrivial = distinct (abstract state before the step, operation kind, ok/err) cells reached, where abstract state = (type tag or unbound for a, b, f) x (f, g, len bound as functions) x builtin switch (5488 states); a cell is trivial (not counted) if it is a pure read on the pristine empty state."))
        .with("samples", Json::Arr(samples))
        .with("simulated_runs", Json::u(total_runs))
        .with("runs_per_hour", Json::u((total_runs as f64 / hours.max(1e-9)) as u64))
        .with("seeds", Json::s(format!("history i uses mix(VERIF_SEED={}, i), i in 0..{}", batch_seed, runs)))
        .with("simulated_time", Json::s("none: no clock or timer; progress is counted in history steps (and scheduler steps in the threaded part)"))
        .with("state_observations", Json::u(s.get("state_observations")))
        .with("abstract_states_total", Json::u(ABSTRACT_STATES))
        .with("fault_kinds_fired", s.group("fault_fired"))
        .with("operation_kinds", s.group("op"))
        .with("steps_skipped_by_reference", Json::u(s.get("steps_skipped_by_reference")))
        .with("parse_rejected", Json::u(s.get("parse_rejected")))
        .with("threaded_part", mt_json)
        .with("probes_stuck_at_zero", Json::arr_of_str(stuck.iter().cloned()))
        .with("event_log_digest", Json::s(format!("{:016x}", res.out.digest)))
        .with(
            "components",
            Json::obj()
                .with("real", Json::arr_of_str(["HashMapContext (set_value, get_value, iterators, clear*, set_function, call_function, builtin switch, Clone)", "Node::eval_with_context_mut / eval_with_context, Operator::eval / eval_mut", "tokenizer and tree builder (parsed form / string entry)"]))
                .with("stub", Json::arr_of_str(["sentinel user functions (recording closures with injected errors)", "abstract map model + reference interpreter", "scheduler (threaded part)"]))
                .with("absent", Json::arr_of_str(["clock", "network", "disk"])),
        )
        .with("known_findings_matched", Json::u(verdict.known));
    Evidence {
        property_id: "C04".to_string(),
        tier: tier.to_string(),
        seed: batch_seed,
        level: "exploration".to_string(),
        coverage,
        assumptions: vec![
            "the abstract map model of DESIGN.md Appendix A is the specification".to_string(),
            "expression semantics come from the reference interpreter; pure operators are delegated to the library in isolation".to_string(),
            "single-statement programs only, so that outcomes do not depend on evaluation order (C08's subject)".to_string(),
        ],
        wall_s: total_wall,
        violations: verdict.new_violations,
    }
    .write();
    println!(
        "C04 {}: histories={} steps={} cells={} wall={:.1}s violations={} known={}",
        tier,
        total_runs,
        s.get("steps") + mt_stats.get("steps"),
        res.distinct_nontrivial,
        total_wall,
        verdict.new_violations,
        verdict.known
    );
    if !stuck.is_empty() {
        println!("note: probes stuck at zero: {}", stuck.join(", "));
    }
    if verdict.new_violations > 0 {
        1
    } else {
        0
    }
}

/// Asks another binary to minimise a replay body (`<exe> minimise <in> <out>`).
pub fn minimise_via(exe: &Path, replay: &Json) -> Json {
    let dir = driver::work_dir();
    let inp = dir.join(format!("min-in-{}.json", std::process::id()));
    let outp = dir.join(format!("min-out-{}.json", std::process::id()));
    if std::fs::write(&inp, replay.to_compact()).is_err() {
        return replay.clone();
    }
    let status = std::process::Command::new(exe)
        .arg("minimise")
        .arg(&inp)
        .arg(&outp)
        .status();
    let result = match status {
        Ok(s) if s.success() => std::fs::read_to_string(&outp)
            .ok()
            .and_then(|t| Json::parse(&t).ok())
            .unwrap_or_else(|| replay.clone()),
        _ => replay.clone(),
    };
    let _ = std::fs::remove_file(&inp);
    let _ = std::fs::remove_file(&outp);
    result
}
