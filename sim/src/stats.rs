//! Counters measured by the machinery itself (merged across worker processes by summation).

use crate::json::Json;
use std::collections::BTreeMap;

#[derive(Default, Clone, Debug)]
pub struct Stats {
    pub counters: BTreeMap<String, u64>,
}

impl Stats {
    pub fn new() -> Self {
        Self::default()
    }

    #[inline]
    pub fn inc(&mut self, key: &str) {
        self.add(key, 1);
    }

    #[inline]
    pub fn add(&mut self, key: &str, n: u64) {
        if let Some(c) = self.counters.get_mut(key) {
            *c += n;
        } else {
            self.counters.insert(key.to_string(), n);
        }
    }

    pub fn get(&self, key: &str) -> u64 {
        self.counters.get(key).copied().unwrap_or(0)
    }

    pub fn merge(&mut self, other: &Stats) {
        for (k, v) in &other.counters {
            self.add(k, *v);
        }
    }

    pub fn to_json(&self) -> Json {
        Json::Obj(
            self.counters
                .iter()
                .map(|(k, v)| (k.clone(), Json::u(*v)))
                .collect(),
        )
    }

    pub fn from_json(j: &Json) -> Stats {
        let mut s = Stats::new();
        if let Some(o) = j.as_obj() {
            for (k, v) in o {
                if let Some(n) = v.as_u64() {
                    s.counters.insert(k.clone(), n);
                }
            }
        }
        s
    }

    /// Sub-map of the counters whose key starts with `prefix.` (prefix stripped).
    pub fn group(&self, prefix: &str) -> Json {
        let p = format!("{}.", prefix);
        Json::Obj(
            self.counters
                .iter()
                .filter(|(k, _)| k.starts_with(&p))
                .map(|(k, v)| (k[p.len()..].to_string(), Json::u(*v)))
                .collect(),
        )
    }
}
