//! verifsim: deterministic simulation with fault injection for evalexpr (see /verif/DESIGN.md).
//!
//! This library holds everything that needs no threads: PRNG streams, canonical renderings,
//! program generator, reference interpreter, the fault-injection seam, the C04/C08/C11 engines
//! and the batch driver. The scheduler and the C15 engine live in the `verifsim_mt` binary so that
//! a tree in which a type lost `Send`/`Sync` still lets the other checks build.

pub mod canon;
pub mod driver;
pub mod env;
pub mod gen;
pub mod history;
pub mod history_engine;
pub mod json;
pub mod prog;
pub mod refint;
pub mod rng;
pub mod seam;
pub mod seam_engine;
pub mod stats;
