//! C08 and C11: fault injection at every call of the context seam, recorded effect history
//! against the reference interpreter (C08) and the relational read-only/mutable oracle (C11).

use crate::env::{initial_snapshot, run_real, CtxKind, Entry, Ev, Outcome, Path, Setup};
use crate::json::Json;
use crate::prog::Expr;
use crate::refint::{
    assignment_targets_are_names, run_ref, tree_has_assignment, tree_has_op_assignment, Delegate,
};
use crate::rng::{Fnv, Rng};
use crate::stats::Stats;
use evalexpr::{build_operator_tree, DefaultNumericTypes, Node};

#[derive(Clone, Copy, Debug, PartialEq, Eq)]
pub enum Prop {
    C08,
    C11,
}

impl Prop {
    pub fn id(self) -> &'static str {
        match self {
            Prop::C08 => "C08",
            Prop::C11 => "C11",
        }
    }
}

#[derive(Clone, Copy, Debug, PartialEq, Eq, Hash)]
pub enum Form {
    /// assembled through `operator_mut` / `children_mut`, with or without `RootNode` wrappers
    Assembled { wrap: bool },
    /// rendered to source text and parsed by the library
    Parsed,
    /// as `Parsed`, but left-nested binary operations are written without parentheses
    ParsedLoose,
}

impl Form {
    pub fn is_parsed(self) -> bool {
        matches!(self, Form::Parsed | Form::ParsedLoose)
    }
    pub fn source(self, program: &crate::prog::Expr) -> String {
        match self {
            // (half of them, chosen by the program itself, without any blanks)
            Form::ParsedLoose if program.size() % 2 == 0 => program.render_tight(),
            Form::ParsedLoose => program.render_loose(),
            _ => program.render(),
        }
    }
}

impl Form {
    pub fn name(self) -> &'static str {
        match self {
            Form::Assembled { wrap: true } => "assembled_wrapped",
            Form::Assembled { wrap: false } => "assembled",
            Form::Parsed => "parsed",
            Form::ParsedLoose => "parsed_loose",
        }
    }
    pub fn from_name(s: &str) -> Option<Form> {
        [
            Form::Assembled { wrap: true },
            Form::Assembled { wrap: false },
            Form::Parsed,
            Form::ParsedLoose,
        ]
        .into_iter()
        .find(|f| f.name() == s)
    }
}

#[derive(Clone, Debug, PartialEq)]
pub struct Case {
    pub program: Expr,
    pub form: Form,
    pub setup: Setup,
    pub kind: CtxKind,
    pub entry: Entry,
    /// index into `TYPED_ENTRIES` (0 = the untyped entry point)
    pub typed: usize,
}

impl Case {
    pub fn to_json(&self) -> Json {
        Json::obj()
            .with("source", Json::s(self.form.source(&self.program)))
            .with("form", Json::s(self.form.name()))
            .with("context_kind", Json::s(self.kind.name()))
            .with(
                "entry",
                Json::s(match self.entry {
                    Entry::Tree => "tree",
                    Entry::Str => "string",
                }),
            )
            .with("typed_entry", Json::s(crate::env::TYPED_ENTRIES[self.typed % 8]))
            .with("setup", self.setup.to_json())
            .with("program", self.program.to_json())
    }

    pub fn from_json(j: &Json) -> Result<Case, String> {
        Ok(Case {
            program: Expr::from_json(j.field("program")?)?,
            form: Form::from_name(j.str_field("form")?).ok_or("unknown form")?,
            setup: Setup::from_json(j.field("setup")?)?,
            kind: CtxKind::from_name(j.str_field("context_kind")?).ok_or("unknown context kind")?,
            entry: match j.str_field("entry")? {
                "tree" => Entry::Tree,
                "string" => Entry::Str,
                _ => return Err("unknown entry".into()),
            },
            typed: j
                .get("typed_entry")
                .and_then(|t| t.as_str())
                .and_then(|t| crate::env::TYPED_ENTRIES.iter().position(|e| *e == t))
                .unwrap_or(0),
        })
    }

    pub fn hash(&self) -> u64 {
        let mut h = Fnv::new();
        h.str(&self.to_json().to_compact());
        h.finish()
    }

    /// A rough size used to order minimisation candidates.
    pub fn weight(&self) -> usize {
        self.program.size() * 4 + self.setup.vars.len() + self.setup.fns.len()
    }
}

#[derive(Clone, Debug, PartialEq)]
pub struct Finding {
    pub prop: Prop,
    /// violation class: result-mismatch, history-mismatch, state-mismatch, mutated-context, panic
    pub class: String,
    /// which comparison failed
    pub subcheck: &'static str,
    pub faults: Vec<usize>,
    pub expected: String,
    pub actual: String,
}

pub fn render_outcome(o: &Outcome) -> String {
    let log: Vec<String> = o.log.iter().map(|e| e.render()).collect();
    let vars: Vec<String> = o.vars.iter().map(|(n, v)| format!("{}={}", n, v)).collect();
    format!(
        "result={} | history=[{}] | vars={{{}}} | fns=[{}]",
        o.result,
        log.join(", "),
        vars.join(", "),
        o.fns.join(", ")
    )
}

fn diff_class(expected: &Outcome, actual: &Outcome, with_state: bool) -> Option<&'static str> {
    if actual.panicked {
        return Some("panic");
    }
    if expected.log != actual.log {
        return Some("history-mismatch");
    }
    if expected.result != actual.result {
        return Some("result-mismatch");
    }
    if with_state && (expected.vars != actual.vars || expected.fns != actual.fns) {
        return Some("state-mismatch");
    }
    None
}

/// The tree of a case (and its source text if the form has one).
pub enum Built {
    Tree(Node, Option<String>),
    /// the parser rejected a program of the uncontested grammar region (counted, not judged)
    ParseRejected(String),
}

pub fn build(case: &Case) -> Built {
    match case.form {
        Form::Assembled { wrap } => Built::Tree(case.program.assemble(wrap), None),
        Form::Parsed | Form::ParsedLoose => {
            let src = case.form.source(&case.program);
            match build_operator_tree::<DefaultNumericTypes>(&src) {
                Ok(t) => Built::Tree(t, Some(src)),
                Err(e) => Built::ParseRejected(format!("{:?}", e)),
            }
        },
    }
}

pub struct Ctx<'a> {
    pub stats: &'a mut Stats,
    pub delegate: &'a mut Delegate,
}

/// Result of executing one (case, fault plan): the finding, if any, and the fault-free reference
/// history (used to enumerate fault positions).
pub struct PlanResult {
    pub finding: Option<Finding>,
    pub ref_log: Vec<Ev>,
    pub skipped: bool,
    /// the mutable path agreed with the reference on this plan
    pub mut_agrees: bool,
}

fn finding(
    prop: Prop,
    class: &str,
    subcheck: &'static str,
    faults: &[usize],
    expected: &Outcome,
    actual: &Outcome,
) -> Finding {
    Finding {
        prop,
        class: class.to_string(),
        subcheck,
        faults: faults.to_vec(),
        expected: render_outcome(expected),
        actual: render_outcome(actual),
    }
}

/// The tree the reference interpreter walks. For an assembled case: the tree under test. For a
/// case given as source text: the program's own structure, assembled without the tokenizer and
/// the tree builder. "Exactly once, in source order" is a statement about the elements of the
/// source text: a tree builder that duplicates or reorders an element evaluates its own tree
/// faithfully and still breaks it. (The renderer is checked against the parser by this very
/// comparison: on the unchanged tree every rendered program evaluates like its structure.)
pub fn reference_tree(case: &Case, tree: &Node) -> Node {
    if case.form.is_parsed() && case.program.is_renderable() {
        case.program.assemble(true)
    } else {
        tree.clone()
    }
}

/// Executes one fault plan of one case and applies the oracle of `prop`.
pub fn check_plan(
    case: &Case,
    tree: &Node,
    src: Option<&str>,
    faults: &[usize],
    prop: Prop,
    cx: &mut Ctx,
) -> PlanResult {
    let rtree_owned = reference_tree(case, tree);
    let rtree = &rtree_owned;
    let kind = case.kind;
    // -------- mutable path against the reference (the C08 oracle; C11 needs its verdict too)
    let r_mut = match run_ref(rtree, &case.setup, kind, false, case.typed, faults, cx.delegate) {
        Ok(o) => o,
        Err(_) => {
            cx.stats.inc("skipped_by_reference");
            return PlanResult {
                finding: None,
                ref_log: vec![],
                skipped: true,
                mut_agrees: false,
            };
        },
    };
    let o_mut = run_real(tree, src, &case.setup, kind, Path::Mut, case.entry, case.typed, faults);
    cx.stats.inc("evaluations_real");
    cx.stats.add("seam_calls", o_mut.log.len() as u64);
    for (_, k) in &o_mut.fired {
        cx.stats.inc(&format!("fault_fired.{}", k.name()));
    }
    let mut_diff = diff_class(&r_mut, &o_mut, true);
    let ref_log = r_mut.log.clone();

    if prop == Prop::C08 {
        let mut f = mut_diff.map(|class| finding(prop, class, "mutable-vs-reference", faults, &r_mut, &o_mut));
        if f.is_none() {
            // the read-only evaluator is an evaluator too: same order, same stopping rule
            // (assignments end it with ContextNotMutable once their operands are evaluated)
            if let Ok(r_imm) = run_ref(rtree, &case.setup, kind, true, case.typed, faults, cx.delegate) {
                let o_imm = run_real(tree, src, &case.setup, kind, Path::Imm, case.entry, case.typed, faults);
                cx.stats.inc("evaluations_real");
                cx.stats.inc("c08.read_only_path_checked");
                f = diff_class(&r_imm, &o_imm, true)
                    .map(|class| finding(prop, class, "read-only-vs-reference", faults, &r_imm, &o_imm));
            }
        }
        return PlanResult {
            finding: f,
            ref_log,
            skipped: false,
            mut_agrees: mut_diff.is_none(),
        };
    }

    // -------- C11
    let has_assign = tree_has_assignment(tree);
    let o_imm = run_real(tree, src, &case.setup, kind, Path::Imm, case.entry, case.typed, faults);
    cx.stats.inc("evaluations_real");
    let (init_vars, init_fns) = initial_snapshot(&case.setup, kind);
    // (1) never mutates
    if o_imm.panicked {
        let r_imm = run_ref(rtree, &case.setup, kind, true, case.typed, faults, cx.delegate).ok();
        let exp = r_imm.unwrap_or_else(|| o_mut.clone());
        return PlanResult {
            finding: Some(finding(prop, "panic", "immutable-path", faults, &exp, &o_imm)),
            ref_log,
            skipped: false,
            mut_agrees: mut_diff.is_none(),
        };
    }
    if o_imm.vars != init_vars || o_imm.fns != init_fns {
        let mut exp = o_imm.clone();
        exp.vars = init_vars;
        exp.fns = init_fns;
        return PlanResult {
            finding: Some(finding(
                prop,
                "mutated-context",
                "immutable-never-mutates",
                faults,
                &exp,
                &o_imm,
            )),
            ref_log,
            skipped: false,
            mut_agrees: mut_diff.is_none(),
        };
    }
    cx.stats.inc("c11.never_mutates_checked");
    if !has_assign {
        // (2) no assignment operator anywhere: the two real paths must agree outright
        cx.stats.inc("c11.no_assignment_trees");
        if let Some(class) = diff_class(&o_mut, &o_imm, false) {
            return PlanResult {
                finding: Some(finding(
                    prop,
                    class,
                    "immutable-vs-mutable(no-assignment)",
                    faults,
                    &o_mut,
                    &o_imm,
                )),
                ref_log,
                skipped: false,
                mut_agrees: mut_diff.is_none(),
            };
        }
        if o_mut.vars != init_vars || o_mut.fns != init_fns {
            let mut exp = o_mut.clone();
            exp.vars = init_vars;
            exp.fns = init_fns;
            return PlanResult {
                finding: Some(finding(
                    prop,
                    "mutated-context",
                    "mutable-path-without-assignment-mutates",
                    faults,
                    &exp,
                    &o_mut,
                )),
                ref_log,
                skipped: false,
                mut_agrees: mut_diff.is_none(),
            };
        }
    } else {
        // (3r) reference-free relations between the two real runs, sound even if both paths
        // deviate from the reference in the same way: the read-only run does what the mutable
        // run does until it reaches an assignment, never writes, and either ends like the
        // mutable run or with ContextNotMutable
        let prefix_ok = o_imm.log.len() <= o_mut.log.len()
            && o_imm.log[..] == o_mut.log[..o_imm.log.len()]
            && !o_imm.log.iter().any(|e| matches!(e, Ev::Set(..)));
        if !prefix_ok {
            return PlanResult {
                finding: Some(finding(
                    prop,
                    "history-mismatch",
                    "immutable-history-not-a-prefix-of-mutable",
                    faults,
                    &o_mut,
                    &o_imm,
                )),
                ref_log,
                skipped: false,
                mut_agrees: mut_diff.is_none(),
            };
        }
        if o_imm.result != o_mut.result && o_imm.result != "Err(ContextNotMutable)" {
            return PlanResult {
                finding: Some(finding(
                    prop,
                    "result-mismatch",
                    "immutable-result-neither-mutable-result-nor-ContextNotMutable",
                    faults,
                    &o_mut,
                    &o_imm,
                )),
                ref_log,
                skipped: false,
                mut_agrees: mut_diff.is_none(),
            };
        }
        cx.stats.inc("c11.relational_checked");
        // (3) assignment operators present: the exact projection is judged only if the mutable
        // path is the evaluator the reference describes; otherwise the deviation is C08's business
        if mut_diff.is_some() {
            cx.stats.inc("c11.skipped_mutable_deviates");
        } else {
            cx.stats.inc("c11.assignment_trees");
            if let Ok(r_imm) = run_ref(rtree, &case.setup, kind, true, case.typed, faults, cx.delegate) {
                if r_imm.result.contains("ContextNotMutable") {
                    cx.stats.inc("c11.projected_to_context_not_mutable");
                } else {
                    cx.stats.inc("c11.earlier_error_wins");
                }
                if let Some(class) = diff_class(&r_imm, &o_imm, false) {
                    return PlanResult {
                        finding: Some(finding(
                            prop,
                            class,
                            "immutable-vs-projection",
                            faults,
                            &r_imm,
                            &o_imm,
                        )),
                        ref_log,
                        skipped: false,
                mut_agrees: mut_diff.is_none(),
                    };
                }
            }
        }
    }
    PlanResult {
        finding: None,
        ref_log,
        skipped: false,
        mut_agrees: mut_diff.is_none(),
    }
}

/// C11 only, fault-free: contexts without variable storage (the default, refusing `set_value`;
/// `EmptyContext`; `EmptyContextWithBuiltinFunctions`). Relational like the rest of C11: a
/// read-only outcome is judged against the reference projection only if the *mutable* evaluator
/// agrees with the reference on this program (on the primary context kind - the caller checks
/// that - and on the storeless context); otherwise the deviation is C08's business.
pub fn check_storeless(case: &Case, tree: &Node, src: Option<&str>, cx: &mut Ctx) -> Option<Finding> {
    let rtree_owned = reference_tree(case, tree);
    let rtree = &rtree_owned;
    let prop = Prop::C11;
    // --- the default `set_value`: every assignment is refused, after its operands (and, for an
    // operator-assignment, the read and the plain operator) were evaluated
    let o_mut = run_real(tree, src, &case.setup, CtxKind::NoStore, Path::Mut, case.entry, case.typed, &[]);
    let o_imm = run_real(tree, src, &case.setup, CtxKind::NoStore, Path::Imm, case.entry, case.typed, &[]);
    cx.stats.add("evaluations_real", 2);
    cx.stats.inc("c11.nostore_context_evaluations");
    // reference-free: on a context that cannot store, the mutable entry must reject an
    // assignment whenever the read-only entry does; if all assignment operators of the tree are
    // plain `=` with an identifier (or string constant) as target, both entries must behave
    // identically (same history, same result). (A computed target that is not a string makes the
    // mutable entry fail with ExpectedString before it asks the context to store: `true = f()`.)
    if tree_has_assignment(tree) {
        if !tree_has_op_assignment(tree) && assignment_targets_are_names(tree) {
            if let Some(class) = diff_class(&o_imm, &o_mut, true) {
                return Some(finding(
                    prop,
                    class,
                    "storeless-context(mutable entry differs from read-only entry)",
                    &[],
                    &o_imm,
                    &o_mut,
                ));
            }
        } else if o_imm.result == "Err(ContextNotMutable)" && !o_mut.result.starts_with("Err(") {
            return Some(finding(
                prop,
                "result-mismatch",
                "storeless-context(mutable entry accepts an assignment)",
                &[],
                &o_imm,
                &o_mut,
            ));
        }
    }
    let r_mut = run_ref(rtree, &case.setup, CtxKind::NoStore, false, case.typed, &[], cx.delegate).ok()?;
    if diff_class(&r_mut, &o_mut, true).is_some() {
        cx.stats.inc("c11.skipped_mutable_deviates");
        return None;
    }
    let r_imm = run_ref(rtree, &case.setup, CtxKind::NoStore, true, case.typed, &[], cx.delegate).ok()?;
    if let Some(class) = diff_class(&r_imm, &o_imm, true) {
        return Some(finding(prop, class, "storeless-context(default set_value)", &[], &r_imm, &o_imm));
    }
    // --- the two empty contexts (read-only evaluation is the only one they offer). Witness for
    // the mutable evaluator: the same tree on a storeless context with nothing bound.
    let empty_setup = Setup {
        vars: vec![],
        fns: vec![],
        builtins_disabled: false,
        aging: 0,
    };
    for kind in [CtxKind::Empty, CtxKind::EmptyBuiltins] {
        let witness_setup = Setup {
            vars: vec![],
            fns: vec![],
            builtins_disabled: kind == CtxKind::Empty,
            aging: 0,
        };
        let rw = match run_ref(rtree, &witness_setup, CtxKind::NoStore, false, case.typed, &[], cx.delegate) {
            Ok(r) => r,
            Err(_) => continue,
        };
        let ow = run_real(tree, src, &witness_setup, CtxKind::NoStore, Path::Mut, case.entry, case.typed, &[]);
        cx.stats.inc("evaluations_real");
        if diff_class(&rw, &ow, true).is_some() {
            cx.stats.inc("c11.skipped_mutable_deviates");
            continue;
        }
        let r = match run_ref(rtree, &empty_setup, kind, true, case.typed, &[], cx.delegate) {
            Ok(r) => r,
            Err(_) => continue,
        };
        let o = run_real(tree, src, &empty_setup, kind, Path::Imm, case.entry, case.typed, &[]);
        cx.stats.inc("evaluations_real");
        cx.stats.inc("c11.empty_context_evaluations");
        if let Some(class) = diff_class(&r, &o, true) {
            return Some(finding(prop, class, "empty-context", &[], &r, &o));
        }
    }
    None
}

/// C11, fault-free: a read-only evaluation must leave no trace that is observable through a
/// clone of the context either (state shared between a context and its clones). A witness clone
/// with the builtin switch flipped is observed (function probes, the program's own read-only
/// result) before and after the read-only evaluation on the original. Reference-free.
pub fn check_witness_clone(case: &Case, tree: &Node, cx: &mut Ctx) -> Option<Finding> {
    use evalexpr::Context;
    if !case.kind.has_user_state() {
        return None;
    }
    let rec: crate::env::Rec = std::sync::Arc::new(std::sync::Mutex::new(crate::env::Recorder::default()));
    let ctx = case.setup.build(&rec);
    let mut witness = ctx.clone();
    witness
        .set_builtin_functions_disabled(!case.setup.builtins_disabled)
        .ok()?;
    let observe = |w: &evalexpr::HashMapContext| -> Outcome {
        let (result, panicked) = crate::env::guarded(|| tree.eval_with_context(w));
        Outcome {
            result,
            log: vec![],
            vars: crate::env::snapshot_vars(w),
            fns: crate::env::snapshot_fns(w),
            fired: vec![],
            panicked,
        }
    };
    let before = observe(&witness);
    let _ = crate::env::guarded(|| tree.eval_with_context(&ctx));
    let after = observe(&witness);
    cx.stats.add("evaluations_real", 3);
    cx.stats.inc("c11.witness_clone_checked");
    if before != after {
        return Some(finding(
            Prop::C11,
            "mutated-context",
            "read-only-evaluation-observable-through-clone",
            &[],
            &before,
            &after,
        ));
    }
    None
}

/// C11, fault-free, string entry only: the read-only string-level entry must not depend on what
/// was evaluated before. The source is evaluated read-only, then a *whitespace twin* of it (the
/// blanks inside its string literals doubled: a different program that differs only in
/// whitespace) is evaluated read-only and mutably on fresh contexts; the twin's two outcomes must
/// agree (trees without assignment operators). Reference-free.
pub fn check_whitespace_twin(case: &Case, src: Option<&str>, cx: &mut Ctx) -> Option<Finding> {
    let src = src?;
    if !src.contains("a b") {
        return None;
    }
    let twin = src.replace("a b", "a  b");
    let twin_tree = build_operator_tree::<DefaultNumericTypes>(&twin).ok()?;
    if tree_has_assignment(&twin_tree) {
        return None;
    }
    let first_tree = build_operator_tree::<DefaultNumericTypes>(src).ok()?;
    let kind = case.kind;
    // first the original, read-only, through the string entry (whatever it leaves behind)
    let _ = run_real(&first_tree, Some(src), &case.setup, kind, Path::Imm, Entry::Str, case.typed, &[]);
    let o_imm = run_real(&twin_tree, Some(&twin), &case.setup, kind, Path::Imm, Entry::Str, case.typed, &[]);
    let o_mut = run_real(&twin_tree, Some(&twin), &case.setup, kind, Path::Mut, Entry::Str, case.typed, &[]);
    cx.stats.add("evaluations_real", 3);
    cx.stats.inc("c11.whitespace_twin_checked");
    diff_class(&o_mut, &o_imm, false).map(|class| {
        finding(
            Prop::C11,
            class,
            "read-only-string-entry-depends-on-previous-evaluation(whitespace twin)",
            &[],
            &o_mut,
            &o_imm,
        )
    })
}

/// Characters and fragments a source text may legitimately start or end with (or that a file
/// read may leave there): whatever the tokenizer makes of them, both string-level entries get
/// the same text and must make the same of it.
pub const SOURCE_DECORATIONS: [&str; 12] = [
    "\u{feff}", "\u{a0}", "\u{200b}", "\t", "\r\n", "\u{2028}", "\u{3000}", " ", "\n", "\u{0}", "\u{c}", "\u{85}",
];

/// C11, fault-free, string entries only, reference-free: the source with a decoration in front
/// of it or behind it (byte order mark, non-breaking / zero-width / ideographic space, line
/// separators, control characters) evaluated read-only and mutably on fresh contexts; the two
/// outcomes must agree (no assignment operators in the undecorated tree).
pub fn check_decorated_source(case: &Case, tree: &Node, src: Option<&str>, cx: &mut Ctx) -> Option<Finding> {
    let src = src?;
    if tree_has_assignment(tree) {
        return None;
    }
    // the decoration is chosen by the text itself (no PRNG: minimisation stays a pure function)
    let h = src.bytes().fold(0usize, |a, b| a.wrapping_mul(31).wrapping_add(b as usize));
    let deco = SOURCE_DECORATIONS[h % SOURCE_DECORATIONS.len()];
    let decorated = if (h / 16) % 3 == 0 { format!("{}{}", src, deco) } else { format!("{}{}", deco, src) };
    let kind = case.kind;
    // the trees are only a fallback for entries that are not string-level; Entry::Str parses `decorated`
    let o_imm = run_real(tree, Some(&decorated), &case.setup, kind, Path::Imm, Entry::Str, case.typed, &[]);
    let o_mut = run_real(tree, Some(&decorated), &case.setup, kind, Path::Mut, Entry::Str, case.typed, &[]);
    cx.stats.add("evaluations_real", 2);
    cx.stats.inc("c11.decorated_source_checked");
    diff_class(&o_mut, &o_imm, false).map(|class| {
        finding(
            Prop::C11,
            class,
            "string-entries-disagree-on-decorated-source",
            &[],
            &o_mut,
            &o_imm,
        )
    })
}

/// Prefixes and bodies of small texts at the edge of what the tokenizer takes for a literal
/// (signs Rust's own number parsers would accept, the extremes of the integer range, hexadecimal
/// forms, exponents, separators). No text contains an assignment sign.
pub const LEXEME_PREFIXES: [&str; 8] = ["", "-", "+", "--", "- ", "!", " ", "-+"];
pub const LEXEME_BODIES: [&str; 30] = [
    "5", "9223372036854775807", "9223372036854775808", "18446744073709551615", "0x10", "0x-5", "0x+5", "0x",
    "0x8000000000000000", "0x7fffffffffffffff", "0xffffffffffffffff", "0X10", "1.5", "1e3", "1e", "1e+3", "5.", ".5",
    "1_0", "007", "true", "a", "zz", "\"s\"", "()", "inf", "NaN", "1.0e400", "5 5", "",
];

/// C11, fault-free, string entries only, reference-free: a small literal-like text (chosen by the
/// case's own source text, no PRNG) evaluated read-only and mutably on fresh contexts of the
/// case's setup, through the case's typed entry; the two outcomes must agree (there is no
/// assignment in any of these texts), whatever the tokenizer makes of the text.
pub fn check_lexeme_twin(case: &Case, tree: &Node, src: Option<&str>, cx: &mut Ctx) -> Option<Finding> {
    let src = src?;
    let h = src.bytes().fold(7usize, |a, b| a.wrapping_mul(131).wrapping_add(b as usize));
    for k in 0..2 {
        let h = h.wrapping_add(k * 7919);
        let text = format!(
            "{}{}{}",
            LEXEME_PREFIXES[h % LEXEME_PREFIXES.len()],
            LEXEME_BODIES[(h / 8) % LEXEME_BODIES.len()],
            if (h / 256) % 4 == 0 { " " } else { "" }
        );
        let o_imm = run_real(tree, Some(&text), &case.setup, case.kind, Path::Imm, Entry::Str, case.typed, &[]);
        let o_mut = run_real(tree, Some(&text), &case.setup, case.kind, Path::Mut, Entry::Str, case.typed, &[]);
        cx.stats.add("evaluations_real", 2);
        cx.stats.inc("c11.lexeme_twin_checked");
        if let Some(class) = diff_class(&o_mut, &o_imm, false) {
            let mut f = finding(Prop::C11, class, "string-entries-disagree-on-literal-like-text", &[], &o_mut, &o_imm);
            f.actual = format!("[text `{}`] {}", text, f.actual);
            return Some(f);
        }
    }
    None
}

/// Which seam calls of a fault-free history can be failed for this context kind.
pub fn fault_positions(log: &[Ev]) -> Vec<usize> {
    (0..log.len()).collect()
}

/// Full treatment of one case: fault-free run, every single-fault position, a few double faults.
/// Returns the first finding. `extra` is the PRNG for the double-fault plans (None: skip them).
pub fn check_case(
    case: &Case,
    prop: Prop,
    cx: &mut Ctx,
    mut extra: Option<&mut Rng>,
    given_plan: Option<&[usize]>,
) -> Option<Finding> {
    let (tree, src) = match build(case) {
        Built::Tree(t, s) => (t, s),
        Built::ParseRejected(_) => {
            cx.stats.inc("parse_rejected");
            return None;
        },
    };
    let src_ref = src.as_deref();
    cx.stats.inc("cases");
    let base = check_plan(case, &tree, src_ref, &[], prop, cx);
    if base.skipped {
        return None;
    }
    cx.stats.inc("plans.fault_free");
    if base.finding.is_some() {
        return base.finding;
    }
    // the other seven entry points of the same tree / source, fault-free (typed entries are views
    // of the one evaluator; which of them shows a difference depends on the result's type)
    for t in 0..crate::env::TYPED_ENTRIES.len() {
        if t == case.typed {
            continue;
        }
        let mut other = case.clone();
        other.typed = t;
        let r = check_plan(&other, &tree, src_ref, &[], prop, cx);
        cx.stats.inc("plans.fault_free_other_entry");
        if let Some(mut f) = r.finding {
            f.actual = format!("[entry point `{}`] {}", crate::env::TYPED_ENTRIES[t], f.actual);
            return Some(f);
        }
    }
    if prop == Prop::C11 {
        if let Some(f) = check_witness_clone(case, &tree, cx) {
            return Some(f);
        }
        if let Some(f) = check_whitespace_twin(case, src_ref, cx) {
            return Some(f);
        }
        if let Some(f) = check_decorated_source(case, &tree, src_ref, cx) {
            return Some(f);
        }
        if let Some(f) = check_lexeme_twin(case, &tree, src_ref, cx) {
            return Some(f);
        }
    }
    if prop == Prop::C11 && base.mut_agrees {
        if let Some(f) = check_storeless(case, &tree, src_ref, cx) {
            return Some(f);
        }
    }
    if let Some(plan) = given_plan {
        if !plan.is_empty() {
            let r = check_plan(case, &tree, src_ref, plan, prop, cx);
            if r.finding.is_some() {
                return r.finding;
            }
        }
    }
    let positions = fault_positions(&base.ref_log);
    let effects_before: Vec<usize> = {
        // number of effects (Set/Call) strictly before each position
        let mut n = 0;
        let mut v = Vec::with_capacity(base.ref_log.len());
        for e in &base.ref_log {
            v.push(n);
            if e.is_effect() {
                n += 1;
            }
        }
        v
    };
    for &k in &positions {
        let r = check_plan(case, &tree, src_ref, &[k], prop, cx);
        cx.stats.inc("plans.single_fault");
        if base.ref_log.len() >= 2 && effects_before[k] >= 1 {
            cx.stats.inc("plans.single_fault_nontrivial");
        }
        if r.finding.is_some() {
            return r.finding;
        }
    }
    if let Some(rng) = extra.as_deref_mut() {
        if positions.len() >= 2 {
            for _ in 0..2 {
                let a = *rng.pick(&positions);
                let b = *rng.pick(&positions);
                if a == b {
                    continue;
                }
                let plan = [a.min(b), a.max(b)];
                let r = check_plan(case, &tree, src_ref, &plan, prop, cx);
                cx.stats.inc("plans.double_fault");
                if r.finding.is_some() {
                    return r.finding;
                }
            }
        }
    }
    None
}

/// Number of nontrivial single-fault positions of a case (fault-free history has >= 2 seam calls
/// and at least one effect precedes the fault) - the `distinct_nontrivial` rule.
pub fn nontrivial_positions(log: &[Ev]) -> usize {
    if log.len() < 2 {
        return 0;
    }
    let mut effects = 0;
    let mut n = 0;
    for e in log {
        if effects >= 1 {
            n += 1;
        }
        if e.is_effect() {
            effects += 1;
        }
    }
    n
}
