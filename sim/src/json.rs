//! Minimal JSON value, writer and parser (no external crates).

use std::fmt::Write as _;

#[derive(Clone, Debug, PartialEq)]
pub enum Json {
    Null,
    Bool(bool),
    Int(i128),
    Float(f64),
    Str(String),
    Arr(Vec<Json>),
    Obj(Vec<(String, Json)>),
}

impl Json {
    pub fn obj() -> Json {
        Json::Obj(Vec::new())
    }

    pub fn s(x: impl Into<String>) -> Json {
        Json::Str(x.into())
    }

    pub fn u(x: u64) -> Json {
        Json::Int(x as i128)
    }

    pub fn i(x: i64) -> Json {
        Json::Int(x as i128)
    }

    pub fn arr_of_str<I: IntoIterator<Item = S>, S: Into<String>>(it: I) -> Json {
        Json::Arr(it.into_iter().map(|s| Json::Str(s.into())).collect())
    }

    /// Builder-style insertion (objects only).
    pub fn with(mut self, key: &str, value: Json) -> Json {
        self.set(key, value);
        self
    }

    pub fn set(&mut self, key: &str, value: Json) {
        if let Json::Obj(fields) = self {
            for f in fields.iter_mut() {
                if f.0 == key {
                    f.1 = value;
                    return;
                }
            }
            fields.push((key.to_string(), value));
        } else {
            panic!("Json::set on non-object");
        }
    }

    pub fn get(&self, key: &str) -> Option<&Json> {
        match self {
            Json::Obj(fields) => fields.iter().find(|f| f.0 == key).map(|f| &f.1),
            _ => None,
        }
    }

    pub fn as_str(&self) -> Option<&str> {
        match self {
            Json::Str(s) => Some(s),
            _ => None,
        }
    }

    pub fn as_u64(&self) -> Option<u64> {
        match self {
            Json::Int(i) if *i >= 0 && *i <= u64::MAX as i128 => Some(*i as u64),
            _ => None,
        }
    }

    pub fn as_i64(&self) -> Option<i64> {
        match self {
            Json::Int(i) if *i >= i64::MIN as i128 && *i <= i64::MAX as i128 => Some(*i as i64),
            _ => None,
        }
    }

    pub fn as_f64(&self) -> Option<f64> {
        match self {
            Json::Int(i) => Some(*i as f64),
            Json::Float(f) => Some(*f),
            _ => None,
        }
    }

    pub fn as_bool(&self) -> Option<bool> {
        match self {
            Json::Bool(b) => Some(*b),
            _ => None,
        }
    }

    pub fn as_arr(&self) -> Option<&[Json]> {
        match self {
            Json::Arr(a) => Some(a),
            _ => None,
        }
    }

    pub fn as_obj(&self) -> Option<&[(String, Json)]> {
        match self {
            Json::Obj(o) => Some(o),
            _ => None,
        }
    }

    pub fn str_field(&self, key: &str) -> Result<&str, String> {
        self.get(key)
            .and_then(|j| j.as_str())
            .ok_or_else(|| format!("missing string field `{}`", key))
    }

    pub fn u64_field(&self, key: &str) -> Result<u64, String> {
        self.get(key)
            .and_then(|j| j.as_u64())
            .ok_or_else(|| format!("missing integer field `{}`", key))
    }

    pub fn bool_field(&self, key: &str) -> Result<bool, String> {
        self.get(key)
            .and_then(|j| j.as_bool())
            .ok_or_else(|| format!("missing boolean field `{}`", key))
    }

    pub fn arr_field(&self, key: &str) -> Result<&[Json], String> {
        self.get(key)
            .and_then(|j| j.as_arr())
            .ok_or_else(|| format!("missing array field `{}`", key))
    }

    pub fn field(&self, key: &str) -> Result<&Json, String> {
        self.get(key)
            .ok_or_else(|| format!("missing field `{}`", key))
    }

    pub fn to_compact(&self) -> String {
        let mut out = String::new();
        self.write(&mut out, None, 0);
        out
    }

    pub fn to_pretty(&self) -> String {
        let mut out = String::new();
        self.write(&mut out, Some(1), 0);
        out.push('\n');
        out
    }

    fn write(&self, out: &mut String, indent: Option<usize>, level: usize) {
        match self {
            Json::Null => out.push_str("null"),
            Json::Bool(b) => out.push_str(if *b { "true" } else { "false" }),
            Json::Int(i) => {
                let _ = write!(out, "{}", i);
            },
            Json::Float(f) => {
                if f.is_finite() {
                    let s = format!("{:?}", f);
                    out.push_str(&s);
                } else {
                    out.push_str("null");
                }
            },
            Json::Str(s) => write_str(out, s),
            Json::Arr(a) => {
                if a.is_empty() {
                    out.push_str("[]");
                    return;
                }
                let simple = a
                    .iter()
                    .all(|x| matches!(x, Json::Int(_) | Json::Bool(_) | Json::Null | Json::Float(_)));
                out.push('[');
                for (i, x) in a.iter().enumerate() {
                    if i > 0 {
                        out.push(',');
                        if simple && indent.is_some() {
                            out.push(' ');
                        }
                    }
                    if !simple {
                        newline(out, indent, level + 1);
                    }
                    x.write(out, indent, level + 1);
                }
                if !simple {
                    newline(out, indent, level);
                }
                out.push(']');
            },
            Json::Obj(o) => {
                if o.is_empty() {
                    out.push_str("{}");
                    return;
                }
                out.push('{');
                for (i, (k, v)) in o.iter().enumerate() {
                    if i > 0 {
                        out.push(',');
                    }
                    newline(out, indent, level + 1);
                    write_str(out, k);
                    out.push(':');
                    if indent.is_some() {
                        out.push(' ');
                    }
                    v.write(out, indent, level + 1);
                }
                newline(out, indent, level);
                out.push('}');
            },
        }
    }

    pub fn parse(text: &str) -> Result<Json, String> {
        let mut p = Parser {
            b: text.as_bytes(),
            i: 0,
        };
        p.ws();
        let v = p.value()?;
        p.ws();
        if p.i != p.b.len() {
            return Err(format!("trailing characters at byte {}", p.i));
        }
        Ok(v)
    }
}

fn newline(out: &mut String, indent: Option<usize>, level: usize) {
    if let Some(n) = indent {
        out.push('\n');
        for _ in 0..(n * level) {
            out.push(' ');
        }
    }
}

fn write_str(out: &mut String, s: &str) {
    out.push('"');
    for c in s.chars() {
        match c {
            '"' => out.push_str("\\\""),
            '\\' => out.push_str("\\\\"),
            '\n' => out.push_str("\\n"),
            '\r' => out.push_str("\\r"),
            '\t' => out.push_str("\\t"),
            c if (c as u32) < 0x20 => {
                let _ = write!(out, "\\u{:04x}", c as u32);
            },
            c => out.push(c),
        }
    }
    out.push('"');
}

struct Parser<'a> {
    b: &'a [u8],
    i: usize,
}

impl<'a> Parser<'a> {
    fn ws(&mut self) {
        while self.i < self.b.len() && matches!(self.b[self.i], b' ' | b'\n' | b'\r' | b'\t') {
            self.i += 1;
        }
    }

    fn value(&mut self) -> Result<Json, String> {
        if self.i >= self.b.len() {
            return Err("unexpected end".into());
        }
        match self.b[self.i] {
            b'n' => self.lit("null", Json::Null),
            b't' => self.lit("true", Json::Bool(true)),
            b'f' => self.lit("false", Json::Bool(false)),
            b'"' => Ok(Json::Str(self.string()?)),
            b'[' => {
                self.i += 1;
                let mut v = Vec::new();
                self.ws();
                if self.peek() == Some(b']') {
                    self.i += 1;
                    return Ok(Json::Arr(v));
                }
                loop {
                    self.ws();
                    v.push(self.value()?);
                    self.ws();
                    match self.peek() {
                        Some(b',') => self.i += 1,
                        Some(b']') => {
                            self.i += 1;
                            return Ok(Json::Arr(v));
                        },
                        _ => return Err(format!("expected , or ] at byte {}", self.i)),
                    }
                }
            },
            b'{' => {
                self.i += 1;
                let mut v = Vec::new();
                self.ws();
                if self.peek() == Some(b'}') {
                    self.i += 1;
                    return Ok(Json::Obj(v));
                }
                loop {
                    self.ws();
                    let k = self.string()?;
                    self.ws();
                    if self.peek() != Some(b':') {
                        return Err(format!("expected : at byte {}", self.i));
                    }
                    self.i += 1;
                    self.ws();
                    let val = self.value()?;
                    v.push((k, val));
                    self.ws();
                    match self.peek() {
                        Some(b',') => self.i += 1,
                        Some(b'}') => {
                            self.i += 1;
                            return Ok(Json::Obj(v));
                        },
                        _ => return Err(format!("expected , or }} at byte {}", self.i)),
                    }
                }
            },
            _ => self.number(),
        }
    }

    fn peek(&self) -> Option<u8> {
        self.b.get(self.i).copied()
    }

    fn lit(&mut self, word: &str, v: Json) -> Result<Json, String> {
        if self.b[self.i..].starts_with(word.as_bytes()) {
            self.i += word.len();
            Ok(v)
        } else {
            Err(format!("bad literal at byte {}", self.i))
        }
    }

    fn number(&mut self) -> Result<Json, String> {
        let start = self.i;
        let mut is_float = false;
        while self.i < self.b.len() {
            match self.b[self.i] {
                b'0'..=b'9' | b'-' | b'+' => self.i += 1,
                b'.' | b'e' | b'E' => {
                    is_float = true;
                    self.i += 1
                },
                _ => break,
            }
        }
        let s = std::str::from_utf8(&self.b[start..self.i]).map_err(|e| e.to_string())?;
        if s.is_empty() {
            return Err(format!("unexpected character at byte {}", start));
        }
        if is_float {
            s.parse::<f64>()
                .map(Json::Float)
                .map_err(|e| format!("{} at byte {}", e, start))
        } else {
            s.parse::<i128>()
                .map(Json::Int)
                .map_err(|e| format!("{} at byte {}", e, start))
        }
    }

    fn string(&mut self) -> Result<String, String> {
        if self.peek() != Some(b'"') {
            return Err(format!("expected string at byte {}", self.i));
        }
        self.i += 1;
        let mut out = String::new();
        loop {
            if self.i >= self.b.len() {
                return Err("unterminated string".into());
            }
            let c = self.b[self.i];
            match c {
                b'"' => {
                    self.i += 1;
                    return Ok(out);
                },
                b'\\' => {
                    self.i += 1;
                    let e = self.peek().ok_or("unterminated escape")?;
                    self.i += 1;
                    match e {
                        b'"' => out.push('"'),
                        b'\\' => out.push('\\'),
                        b'/' => out.push('/'),
                        b'n' => out.push('\n'),
                        b'r' => out.push('\r'),
                        b't' => out.push('\t'),
                        b'b' => out.push('\u{8}'),
                        b'f' => out.push('\u{c}'),
                        b'u' => {
                            let h = std::str::from_utf8(
                                self.b.get(self.i..self.i + 4).ok_or("short \\u escape")?,
                            )
                            .map_err(|e| e.to_string())?;
                            let cp = u32::from_str_radix(h, 16).map_err(|e| e.to_string())?;
                            self.i += 4;
                            out.push(char::from_u32(cp).unwrap_or('\u{fffd}'));
                        },
                        _ => return Err(format!("bad escape at byte {}", self.i)),
                    }
                },
                _ => {
                    // copy one UTF-8 scalar
                    if c < 0x80 {
                        out.push(c as char);
                        self.i += 1;
                    } else {
                        let n = if c >= 0xf0 {
                            4
                        } else if c >= 0xe0 {
                            3
                        } else {
                            2
                        };
                        let piece = self.b.get(self.i..self.i + n).ok_or("truncated UTF-8")?;
                        out.push_str(std::str::from_utf8(piece).map_err(|e| e.to_string())?);
                        self.i += n;
                    }
                },
            }
        }
    }
}

#[cfg(test)]
mod tests {
    use super::*;

    #[test]
    fn roundtrip() {
        let j = Json::obj()
            .with("a", Json::Int(-5))
            .with("b", Json::Arr(vec![Json::s("x\"y\n"), Json::Null, Json::Bool(true)]))
            .with("c", Json::obj().with("d", Json::Float(1.5)))
            .with("big", Json::u(u64::MAX));
        let p = j.to_pretty();
        assert_eq!(Json::parse(&p).unwrap(), j);
        assert_eq!(Json::parse(&j.to_compact()).unwrap(), j);
    }
}
