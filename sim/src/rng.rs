//! Seeded PRNG (SplitMix64 seeding, xoshiro256** stream). No external crates.
//! One integer decides everything: every stream used in a run is derived from the run seed with
//! `stream(run_seed, tag)`, and run seeds are derived from the batch seed with `mix(batch, index)`.

#[derive(Clone, Debug)]
pub struct Rng {
    s: [u64; 4],
}

#[inline]
pub fn splitmix(x: &mut u64) -> u64 {
    *x = x.wrapping_add(0x9E37_79B9_7F4A_7C15);
    let mut z = *x;
    z = (z ^ (z >> 30)).wrapping_mul(0xBF58_476D_1CE4_E5B9);
    z = (z ^ (z >> 27)).wrapping_mul(0x94D0_49BB_1331_11EB);
    z ^ (z >> 31)
}

/// Mixes two integers into one well-distributed integer.
pub fn mix(a: u64, b: u64) -> u64 {
    let mut x = a ^ b.rotate_left(32).wrapping_mul(0xD6E8_FEB8_6659_FD93);
    let r = splitmix(&mut x);
    let mut y = r ^ b;
    splitmix(&mut y)
}

pub const STREAM_WORKLOAD: u64 = 0x57_4F_52_4B; // "WORK"
pub const STREAM_FAULTS: u64 = 0x46_41_55_4C; // "FAUL"
pub const STREAM_SCHEDULE: u64 = 0x53_43_48_45; // "SCHE"
pub const STREAM_CONFIG: u64 = 0x43_4F_4E_46; // "CONF"

/// Independent stream `tag` of run `run_seed`.
pub fn stream(run_seed: u64, tag: u64) -> Rng {
    Rng::new(mix(run_seed, tag))
}

impl Rng {
    pub fn new(seed: u64) -> Self {
        let mut x = seed;
        let s = [
            splitmix(&mut x),
            splitmix(&mut x),
            splitmix(&mut x),
            splitmix(&mut x),
        ];
        Rng { s }
    }

    #[inline]
    pub fn next_u64(&mut self) -> u64 {
        let result = self.s[1].wrapping_mul(5).rotate_left(7).wrapping_mul(9);
        let t = self.s[1] << 17;
        self.s[2] ^= self.s[0];
        self.s[3] ^= self.s[1];
        self.s[1] ^= self.s[2];
        self.s[0] ^= self.s[3];
        self.s[2] ^= t;
        self.s[3] = self.s[3].rotate_left(45);
        result
    }

    /// Uniform in `0..n` (n > 0).
    #[inline]
    pub fn below(&mut self, n: u64) -> u64 {
        debug_assert!(n > 0);
        ((self.next_u64() as u128 * n as u128) >> 64) as u64
    }

    #[inline]
    pub fn usize_below(&mut self, n: usize) -> usize {
        self.below(n as u64) as usize
    }

    /// Uniform in `lo..=hi`.
    #[inline]
    pub fn range(&mut self, lo: usize, hi: usize) -> usize {
        lo + self.usize_below(hi - lo + 1)
    }

    /// True with probability `percent`/100.
    #[inline]
    pub fn percent(&mut self, percent: u64) -> bool {
        self.below(100) < percent
    }

    #[inline]
    pub fn pick<'a, T>(&mut self, xs: &'a [T]) -> &'a T {
        &xs[self.usize_below(xs.len())]
    }

    /// Picks an index according to integer weights.
    pub fn weighted(&mut self, weights: &[u32]) -> usize {
        let total: u64 = weights.iter().map(|w| *w as u64).sum();
        debug_assert!(total > 0);
        let mut x = self.below(total);
        for (i, w) in weights.iter().enumerate() {
            if x < *w as u64 {
                return i;
            }
            x -= *w as u64;
        }
        weights.len() - 1
    }
}

/// FNV-1a 64 bit, used for content hashes (distinct counting, event-log digests).
#[derive(Clone, Copy)]
pub struct Fnv(pub u64);

impl Default for Fnv {
    fn default() -> Self {
        Fnv(0xcbf2_9ce4_8422_2325)
    }
}

impl Fnv {
    pub fn new() -> Self {
        Self::default()
    }
    #[inline]
    pub fn bytes(&mut self, b: &[u8]) {
        for x in b {
            self.0 ^= *x as u64;
            self.0 = self.0.wrapping_mul(0x0000_0100_0000_01B3);
        }
    }
    #[inline]
    pub fn str(&mut self, s: &str) {
        self.bytes(s.as_bytes());
        self.bytes(&[0xff]);
    }
    #[inline]
    pub fn u64(&mut self, x: u64) {
        self.bytes(&x.to_le_bytes());
    }
    pub fn finish(&self) -> u64 {
        // final avalanche so that low bits are usable
        let mut x = self.0;
        splitmix(&mut x)
    }
}

pub fn hash_str(s: &str) -> u64 {
    let mut h = Fnv::new();
    h.str(s);
    h.finish()
}
