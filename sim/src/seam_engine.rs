//! Worker, replay, minimiser and evidence for the seam checks (C08, C11).

use crate::driver::{
    self, batch_seed_from_env, default_workers, handle_violations, run_batch, run_seed, Args,
    BatchSpec, Evidence, WorkerOut,
};
use crate::env::{CtxKind, Entry};
use crate::gen::{gen_cfg, gen_setup, Gen};
use crate::json::Json;
use crate::refint::Delegate;
use crate::rng::{stream, Fnv, STREAM_CONFIG, STREAM_FAULTS, STREAM_WORKLOAD};
use crate::seam::{
    build, check_case, check_plan, nontrivial_positions, Built, Case, Ctx, Finding, Form, Prop,
};
use crate::stats::Stats;
use std::path::{Path, PathBuf};

pub fn prop_from_id(id: &str) -> Option<Prop> {
    match id {
        "C08" => Some(Prop::C08),
        "C11" => Some(Prop::C11),
        _ => None,
    }
}

/// The case of run `seed` (pure function of the seed).
pub fn gen_case(seed: u64) -> Case {
    let mut conf = stream(seed, STREAM_CONFIG);
    let mut work = stream(seed, STREAM_WORKLOAD);
    let setup = gen_setup(&mut work);
    let cfg = gen_cfg(&mut conf, &setup);
    let program = {
        let mut g = Gen::new(&mut work, cfg, &setup);
        g.program()
    };
    let kind = match conf.below(100) {
        0..=59 => CtxKind::Sim,
        60..=89 => CtxKind::Bare,
        _ => CtxKind::NoStore,
    };
    let renderable = program.is_renderable();
    let form = match conf.below(3) {
        0 if renderable && conf.percent(35) => Form::ParsedLoose,
        0 if renderable => Form::Parsed,
        1 => Form::Assembled { wrap: true },
        0 => Form::Assembled { wrap: true },
        _ => Form::Assembled { wrap: false },
    };
    let entry = if form.is_parsed() && conf.percent(50) {
        Entry::Str
    } else {
        Entry::Tree
    };
    // typed entry points (views of the one evaluator: same effects, projected result)
    let typed = if conf.percent(30) { 1 + conf.usize_below(7) } else { 0 };
    Case {
        program,
        form,
        setup,
        kind,
        entry,
        typed,
    }
}

fn signature(case: &Case, f: &Finding) -> String {
    format!(
        "{}|{}|{}|{}|{}|faults={:?}|{}",
        f.subcheck,
        case.form.name(),
        case.kind.name(),
        crate::env::TYPED_ENTRIES[case.typed % 8],
        case.program.render(),
        f.faults,
        f.class
    )
}

pub fn replay_body(case: &Case, f: &Finding, batch_seed: u64, run_index: u64, seed: u64) -> Json {
    Json::obj()
        .with("property", Json::s(f.prop.id()))
        .with("engine", Json::s("seam"))
        .with("class", Json::s(f.class.clone()))
        .with("subcheck", Json::s(f.subcheck))
        .with("batch_seed", Json::u(batch_seed))
        .with("run_index", Json::u(run_index))
        .with("run_seed", Json::u(seed))
        .with("case", case.to_json())
        .with(
            "faults",
            Json::Arr(f.faults.iter().map(|k| Json::u(*k as u64)).collect()),
        )
        .with("expected", Json::s(f.expected.clone()))
        .with("actual", Json::s(f.actual.clone()))
        .with("signature", Json::s(signature(case, f)))
        .with(
            "summary",
            Json::s(format!(
                "{} [{}] `{}` faults={:?}: expected {} but got {}",
                f.class,
                f.subcheck,
                case.program.render(),
                f.faults,
                f.expected,
                f.actual
            )),
        )
        .with("minimised", Json::Bool(false))
}

/// One run: generate the case from the seed, treat it completely.
/// Result shapes of the entry-point matrix.
fn matrix_values() -> Vec<crate::canon::V> {
    use evalexpr::Value;
    vec![
        Value::Int(3),
        Value::Int(-9007199254740993),
        Value::Float(2.5),
        Value::Float(f64::NAN),
        Value::Float(-0.0),
        Value::Boolean(true),
        Value::String(String::new()),
        Value::String("a b".into()),
        Value::Tuple(vec![]),
        Value::Tuple(vec![Value::Int(7)]),
        Value::Tuple(vec![Value::Int(1), Value::Float(2.0)]),
        Value::Tuple(vec![Value::Empty]),
        Value::Empty,
    ]
}

/// Number of run indices at the start of every batch that are taken by the entry-point matrix.
pub fn matrix_len() -> u64 {
    (matrix_values().len() * 6) as u64
}

/// The first runs of every batch are not random: the program `a` (or `f(a)`, the identity
/// function) with `a` bound to each result shape in turn, through the tree-level and the
/// string-level entries, on the seam context and on the bare `HashMapContext`. With the sweep
/// over the eight typed entry points inside `check_case` this is the complete matrix
/// entry point x result shape x path (every entry point is a view of the one evaluator).
pub fn matrix_case(index: u64) -> Case {
    let values = matrix_values();
    let v = values[(index as usize) % values.len()].clone();
    let k = (index as usize) / values.len();
    let read = crate::prog::Expr::Read("a".to_string());
    let program = if k % 2 == 0 { read } else { crate::prog::Expr::Call("f".to_string(), Some(Box::new(read))) };
    let (form, entry) = match k / 2 {
        0 => (Form::Parsed, Entry::Str),
        1 => (Form::Parsed, Entry::Tree),
        _ => (Form::Assembled { wrap: false }, Entry::Tree),
    };
    Case {
        program,
        form,
        setup: crate::env::Setup {
            vars: vec![("a".to_string(), v)],
            fns: vec!["f".to_string()],
            builtins_disabled: false,
            aging: 0,
        },
        kind: if index % 2 == 0 { CtxKind::Sim } else { CtxKind::Bare },
        entry,
        typed: 0,
    }
}

pub fn case_of(batch_seed: u64, run_index: u64) -> Case {
    if run_index < matrix_len() {
        matrix_case(run_index)
    } else {
        gen_case(run_seed(batch_seed, run_index))
    }
}

pub fn run_one(prop: Prop, batch_seed: u64, run_index: u64, out: &mut WorkerOut, d: &mut Delegate) {
    let seed = run_seed(batch_seed, run_index);
    let case = case_of(batch_seed, run_index);
    let mut faults_rng = stream(seed, STREAM_FAULTS);
    let before = out.stats.get("evaluations_real");
    let found = {
        let mut cx = Ctx {
            stats: &mut out.stats,
            delegate: d,
        };
        check_case(&case, prop, &mut cx, Some(&mut faults_rng), None)
    };
    out.runs += 1;
    // digest + distinct accounting need the fault-free reference history
    let mut h = Fnv::new();
    h.u64(case.hash());
    h.u64(out.stats.get("evaluations_real") - before);
    if let Built::Tree(tree, _) = build(&case) {
        if let Ok(r) = crate::refint::run_ref(&tree, &case.setup, case.kind, false, 0, &[], d) {
            h.str(&r.result);
            for e in &r.log {
                h.str(&e.render());
            }
            let nt = nontrivial_positions(&r.log);
            out.distinct.push((case.hash(), nt as u32));
            out.stats.inc(&format!("form.{}", case.form.name()));
            out.stats.inc(&format!("context_kind.{}", case.kind.name()));
            out.stats.inc(match case.entry {
                Entry::Tree => "entry.tree",
                Entry::Str => "entry.string",
            });
            out.stats.inc(&format!("typed_entry.{}", crate::env::TYPED_ENTRIES[case.typed % 8]));
            let depth = case.program.depth();
            out.stats.inc(if depth >= 128 {
                "depth.128plus"
            } else if depth >= 20 {
                "depth.20plus"
            } else if depth >= 8 {
                "depth.8_19"
            } else {
                "depth.lt8"
            });
            if r.result.starts_with("Err") {
                out.stats.inc("workload_failures.fault_free_program_fails");
            }
            if out.samples.len() < 3 && r.log.len() >= 3 && (run_index % 7 == 0) {
                out.samples.push(
                    Json::obj()
                        .with("run_index", Json::u(run_index))
                        .with("run_seed", Json::u(seed))
                        .with("source", Json::s(case.program.render()))
                        .with("form", Json::s(case.form.name()))
                        .with("context_kind", Json::s(case.kind.name()))
                        .with(
                            "fault_free_history",
                            Json::arr_of_str(r.log.iter().map(|e| e.render())),
                        )
                        .with("fault_free_result", Json::s(r.result.clone()))
                        .with(
                            "single_fault_positions_enumerated",
                            Json::u(r.log.len() as u64),
                        ),
                );
            }
        }
    }
    if let Some(f) = &found {
        h.str(&f.class);
        out.violations
            .push(replay_body(&case, f, batch_seed, run_index, seed));
    }
    out.absorb_digest(run_index, h.finish());
}

pub fn worker(prop: Prop, args: &Args) {
    crate::env::install_quiet_panic_hook();
    let batch_seed = args.u64("batch-seed");
    let runs = args.u64("runs");
    let stride = args.u64("stride");
    let offset = args.u64("offset");
    let out_path = PathBuf::from(args.str("out"));
    let mut out = WorkerOut::default();
    let mut d = Delegate::new();
    let mut i = offset;
    while i < runs {
        run_one(prop, batch_seed, i, &mut out, &mut d);
        i += stride;
        if out.violations.len() >= 20 {
            // enough to report; the rest of the slice would only repeat it
            break;
        }
    }
    out.stats.add("delegate_calls", d.calls);
    out.write(&out_path)
        .unwrap_or_else(|e| driver::harness_error(&format!("cannot write worker output: {}", e)));
}

/// Re-executes a replay body without any PRNG. Returns the finding if it still violates.
pub fn replay_case(replay: &Json) -> Result<(Case, Option<Finding>), String> {
    let prop = prop_from_id(replay.str_field("property")?).ok_or("not a seam property")?;
    let case = Case::from_json(replay.field("case")?)?;
    let mut faults = Vec::new();
    for f in replay.arr_field("faults")? {
        faults.push(f.as_u64().ok_or("bad fault index")? as usize);
    }
    let mut stats = Stats::new();
    let mut d = Delegate::new();
    let mut cx = Ctx {
        stats: &mut stats,
        delegate: &mut d,
    };
    let (tree, src) = match build(&case) {
        Built::Tree(t, s) => (t, s),
        Built::ParseRejected(e) => return Err(format!("program no longer parses: {}", e)),
    };
    let subcheck = replay.get("subcheck").and_then(|s| s.as_str()).unwrap_or("");
    let f = if subcheck.starts_with("read-only-string-entry-depends-on-previous-evaluation") {
        crate::seam::check_whitespace_twin(&case, src.as_deref(), &mut cx)
    } else if subcheck.starts_with("read-only-evaluation-observable-through-clone") {
        crate::seam::check_witness_clone(&case, &tree, &mut cx)
    } else if subcheck.starts_with("empty-context") || subcheck.starts_with("storeless") {
        crate::seam::check_storeless(&case, &tree, src.as_deref(), &mut cx)
    } else {
        check_plan(&case, &tree, src.as_deref(), &faults, prop, &mut cx).finding
    };
    Ok((case, f))
}

pub fn replay(replay: &Json) -> i32 {
    crate::env::install_quiet_panic_hook();
    match replay_case(replay) {
        Err(e) => {
            eprintln!("HARNESS-ERROR: {}", e);
            2
        },
        Ok((case, None)) => {
            println!(
                "replay: no violation for `{}` (property {})",
                case.program.render(),
                replay.get("property").and_then(|p| p.as_str()).unwrap_or("")
            );
            0
        },
        Ok((case, Some(f))) => {
            println!(
                "VIOLATION property={} class={} subcheck={} program=`{}` faults={:?}",
                f.prop.id(),
                f.class,
                f.subcheck,
                case.program.render(),
                f.faults
            );
            println!("  expected: {}", f.expected);
            println!("  actual:   {}", f.actual);
            1
        },
    }
}

/// Greedy structural minimisation: a candidate is kept iff the complete treatment of the
/// candidate (fault-free + every single-fault position + the original plan) still produces a
/// finding of the same class and sub-check.
pub fn minimise(replay: &Json) -> Json {
    let prop = match prop_from_id(replay.get("property").and_then(|p| p.as_str()).unwrap_or("")) {
        Some(p) => p,
        None => return replay.clone(),
    };
    let (mut case, finding) = match replay_case(replay) {
        Ok((c, Some(f))) => (c, f),
        _ => return replay.clone(),
    };
    let mut best = finding;
    let mut stats = Stats::new();
    let mut d = Delegate::new();
    let same = |a: &Finding, b: &Finding| a.class == b.class && a.subcheck == b.subcheck;
    let mut steps = 0u32;
    let mut progress = true;
    while progress && steps < 5000 {
        progress = false;
        let mut candidates: Vec<Case> = Vec::new();
        for p in case.program.shrink_candidates() {
            if case.form.is_parsed() && !p.is_renderable() {
                continue;
            }
            let mut c = case.clone();
            c.program = p;
            candidates.push(c);
        }
        for i in 0..case.setup.vars.len() {
            let mut c = case.clone();
            c.setup.vars.remove(i);
            candidates.push(c);
        }
        for i in 0..case.setup.fns.len() {
            let mut c = case.clone();
            c.setup.fns.remove(i);
            candidates.push(c);
        }
        if case.setup.aging > 0 {
            let mut c = case.clone();
            c.setup.aging = 0;
            candidates.push(c);
        }
        if case.entry == Entry::Str {
            let mut c = case.clone();
            c.entry = Entry::Tree;
            candidates.push(c);
        }
        if case.typed != 0 {
            let mut c = case.clone();
            c.typed = 0;
            candidates.push(c);
        }
        if case.form.is_parsed() {
            let mut c = case.clone();
            c.form = Form::Assembled { wrap: true };
            c.entry = Entry::Tree;
            candidates.push(c);
        }
        if case.form == (Form::Assembled { wrap: true }) {
            let mut c = case.clone();
            c.form = Form::Assembled { wrap: false };
            candidates.push(c);
        }
        candidates.sort_by_key(|c| c.weight());
        for cand in candidates {
            if cand.weight() > case.weight() {
                continue;
            }
            if cand == case {
                continue;
            }
            steps += 1;
            let mut cx = Ctx {
                stats: &mut stats,
                delegate: &mut d,
            };
            if let Some(f) = check_case(&cand, prop, &mut cx, None, Some(&best.faults)) {
                if same(&f, &best) && (cand.weight() < case.weight() || f.faults.len() < best.faults.len() || cand.form != case.form || cand.entry != case.entry || cand.typed != case.typed || cand.setup.aging != case.setup.aging) {
                    case = cand;
                    best = f;
                    progress = true;
                    break;
                }
            }
        }
    }
    // drop faults that are not needed
    let mut i = 0;
    while i < best.faults.len() {
        let mut plan = best.faults.clone();
        plan.remove(i);
        let mut cx = Ctx {
            stats: &mut stats,
            delegate: &mut d,
        };
        if let Built::Tree(tree, src) = build(&case) {
            let r = check_plan(&case, &tree, src.as_deref(), &plan, prop, &mut cx);
            if let Some(f) = r.finding {
                if same(&f, &best) {
                    best = f;
                    continue;
                }
            }
        }
        i += 1;
    }
    let mut body = replay_body(
        &case,
        &best,
        replay.get("batch_seed").and_then(|x| x.as_u64()).unwrap_or(0),
        replay.get("run_index").and_then(|x| x.as_u64()).unwrap_or(0),
        replay.get("run_seed").and_then(|x| x.as_u64()).unwrap_or(0),
    );
    body.set("minimised", Json::Bool(true));
    body.set("minimisation_steps", Json::u(steps as u64));
    if let Some(orig) = replay.get("case").and_then(|c| c.get("source")) {
        body.set("original_source", orig.clone());
    }
    body
}

pub struct Tier {
    pub runs: u64,
}

pub fn tier_runs(prop: Prop, tier: &str) -> u64 {
    let base = match (prop, tier) {
        (Prop::C08, "thorough") => 15_000_000,
        (Prop::C11, "thorough") => 8_000_000,
        (Prop::C08, _) => 60_000,
        (Prop::C11, _) => 30_000,
    };
    match std::env::var("VERIF_RUNS") {
        Ok(s) => s.parse().unwrap_or(base),
        Err(_) => base,
    }
}

/// Parent: the whole check. Returns the process exit code.
pub fn check(prop: Prop, tier: &str, exe: &Path) -> i32 {
    // the parent minimises in-process: injected panics of user functions must stay quiet
    crate::env::install_quiet_panic_hook();
    let batch_seed = batch_seed_from_env();
    let runs = tier_runs(prop, tier);
    println!(
        "{} {}: VERIF_SEED={} runs={} workers={}",
        prop.id(),
        tier,
        batch_seed,
        runs,
        default_workers()
    );
    let spec = BatchSpec {
        prop: prop.id().to_string(),
        part: "seam".to_string(),
        tier: tier.to_string(),
        batch_seed,
        runs,
        workers: default_workers(),
        exe: exe.to_path_buf(),
    };
    let res = run_batch(&spec);
    let verdict = handle_violations(exe, &res.out.violations, &mut |v| minimise(v), 3);
    let s = &res.out.stats;
    let evals = s.get("evaluations_real");
    let fault_kinds = s.group("fault_fired");
    let mut stuck: Vec<String> = Vec::new();
    let mut probes: Vec<&str> = vec![
        "fault_fired.userfn_error",
        "fault_fired.set_value_error",
        "fault_fired.get_value_none",
        "plans.single_fault",
        "plans.double_fault",
        "form.parsed",
        "form.parsed_loose",
        "form.assembled",
        "form.assembled_wrapped",
        "context_kind.sim",
        "context_kind.bare",
        "context_kind.nostore",
        "entry.string",
        "depth.20plus",
        "depth.128plus",
        "workload_failures.fault_free_program_fails",
    ];
    if prop == Prop::C08 {
        probes.push("c08.read_only_path_checked");
    }
    if prop == Prop::C11 {
        probes.extend([
            "c11.no_assignment_trees",
            "c11.assignment_trees",
            "c11.projected_to_context_not_mutable",
            "c11.earlier_error_wins",
            "c11.empty_context_evaluations",
            "c11.nostore_context_evaluations",
            "c11.witness_clone_checked",
            "c11.whitespace_twin_checked",
            "c11.relational_checked",
        ]);
    }
    for p in probes {
        if s.get(p) == 0 {
            stuck.push(p.to_string());
        }
    }
    let rule = match prop {
        Prop::C08 => "cases = (program, initial context, context kind, tree form, entry) drawn from the run seed; per case the fault-free run, EVERY single seam-call position (Get/Call/Set) failed in turn, and 2 random double-fault plans are executed through eval_with_context_mut and compared with the reference interpreter on (result, final variables + function probes, ordered seam history). distinct_nontrivial = number of distinct (case hash, single-fault position) pairs whose fault-free history has >= 2 seam calls and at least one effect (Call/Set) before the fault position.",
        Prop::C11 => "same cases and fault plans as C08; each plan additionally executed through the read-only path; oracle: context snapshot unchanged; trees without assignment operators: read-only == mutable outcome (result + seam history); trees with assignment operators: read-only outcome == reference projection (ContextNotMutable at the first applied assignment unless an earlier error wins), judged only when the mutable path agrees with the reference; plus EmptyContext / EmptyContextWithBuiltinFunctions / default-set_value context per case. distinct_nontrivial as for C08.",
    };
    let hours = res.wall_s / 3600.0;
    let coverage = Json::obj()
        .with("evaluations", Json::u(evals))
        .with("distinct_nontrivial", Json::u(res.distinct_nontrivial))
        .with("rule", Json::s(rule))
        .with("samples", Json::Arr(res.out.samples.clone()))
        .with("simulated_runs", Json::u(res.out.runs))
        .with("distinct_cases_with_nontrivial_faults", Json::u(res.distinct_cases))
        .with("runs_per_hour", Json::u((res.out.runs as f64 / hours.max(1e-9)) as u64))
        .with("seeds", Json::s(format!("run i uses mix(VERIF_SEED={}, i), i in 0..{}", batch_seed, runs)))
        .with("simulated_time", Json::s("none: evalexpr has no clock or timer; progress is counted in seam calls"))
        .with("seam_calls", Json::u(s.get("seam_calls")))
        .with("fault_kinds_fired", fault_kinds)
        .with("fault_plans", s.group("plans"))
        .with("tree_forms", s.group("form"))
        .with("context_kinds", s.group("context_kind"))
        .with("entries", s.group("entry"))
        .with("typed_entries", s.group("typed_entry"))
        .with("program_depth", s.group("depth"))
        .with("workload_failures", s.group("workload_failures"))
        .with("c11", s.group("c11"))
        .with("skipped_by_reference", Json::u(s.get("skipped_by_reference")))
        .with("parse_rejected", Json::u(s.get("parse_rejected")))
        .with("probes_stuck_at_zero", Json::arr_of_str(stuck.iter().cloned()))
        .with("event_log_digest", Json::s(format!("{:016x}", res.out.digest)))
        .with(
            "components",
            Json::obj()
                .with("real", Json::arr_of_str(["tokenizer and tree builder (parsed form / string entry)", "Node::eval_with_context_mut and eval_with_context", "Operator::eval / eval_mut", "builtin functions", "Function", "HashMapContext", "EmptyContext", "EmptyContextWithBuiltinFunctions", "default ContextWithMutableVariables::set_value"]))
                .with("stub", Json::arr_of_str(["recording user-function closures (sentinel results, injected errors)", "SimContext / NoStoreContext seam wrappers around a real HashMapContext"]))
                .with("absent", Json::arr_of_str(["clock", "network", "disk", "threads (see C15)"])),
        )
        .with("known_findings_matched", Json::u(verdict.known));
    Evidence {
        property_id: prop.id().to_string(),
        tier: tier.to_string(),
        seed: batch_seed,
        level: "fault_enumeration".to_string(),
        coverage,
        assumptions: vec![
            "the reference interpreter (tree walk, left to right, stop at first error) is the specification of evaluation order".to_string(),
            "pure operator semantics and builtin functions are delegated to the library in isolation (not judged here)".to_string(),
            "SimContext forwards faithfully to the wrapped HashMapContext".to_string(),
            "programs are sampled by seed; fault positions are enumerated exhaustively per program".to_string(),
        ],
        wall_s: res.wall_s,
        violations: verdict.new_violations,
    }
    .write();
    println!(
        "{} {}: runs={} evaluations={} distinct_nontrivial={} wall={:.1}s violations={} known={}",
        prop.id(),
        tier,
        res.out.runs,
        evals,
        res.distinct_nontrivial,
        res.wall_s,
        verdict.new_violations,
        verdict.known
    );
    if !stuck.is_empty() {
        println!("note: probes stuck at zero: {}", stuck.join(", "));
    }
    if verdict.new_violations > 0 {
        1
    } else {
        0
    }
}
