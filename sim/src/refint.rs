//! Reference interpreter. It walks the tree the library itself built (`Node::operator()`,
//! `Node::children()`), so it constrains evaluation, not parsing. It pins down order, multiplicity,
//! stopping and state; pure operator semantics and builtin functions are delegated to the library
//! in isolation (a one-operator template tree in a private context), so the oracle is silent about
//! what `+` means.

use crate::canon::{cr, cv, expected_type_error, E, R, V};
use crate::env::{
    injected_error, sentinel, CtxKind, Ev, FaultKind, Outcome, Setup, FN_NAMES, SHADOW_NAMES,
    UNKNOWN_FN,
};
use crate::prog::mk;
use evalexpr::{
    ContextWithMutableVariables, DefaultNumericTypes, EvalexprError, HashMapContext,
    Node, Operator, Value,
};
use std::collections::BTreeMap;

/// Why the reference declines to judge a tree.
#[derive(Debug, Clone, PartialEq)]
pub enum Skip {
    Arity(&'static str),
    UnknownOperator,
    /// the library panicked while evaluating a pure operator / builtin in isolation: that is
    /// C01's subject (never panics), not an ordering question - the program is not judged
    DelegatePanic,
}

/// Marks the message that stands for a panic of a user function on its way to the top.
pub const PANIC_MARK: &str = "\u{0}user function panicked: ";

pub enum RefErr {
    Lib(E),
    Skip(Skip),
}

impl From<E> for RefErr {
    fn from(e: E) -> Self {
        RefErr::Lib(e)
    }
}

/// Library-in-isolation evaluator for pure operators and builtin functions.
pub struct Delegate {
    ctx: HashMapContext<DefaultNumericTypes>,
    pub calls: u64,
}

impl Default for Delegate {
    fn default() -> Self {
        Self::new()
    }
}

const ARG_NAMES: [&str; 4] = ["a0", "a1", "a2", "a3"];

impl Delegate {
    pub fn new() -> Self {
        Delegate {
            ctx: HashMapContext::new(),
            calls: 0,
        }
    }

    /// Applies a pure operator to already computed operand values.
    pub fn apply(&mut self, op: &Operator, args: &[V]) -> Result<R, Skip> {
        if args.len() > ARG_NAMES.len() {
            return Err(Skip::Arity("pure operator with more than 4 operands"));
        }
        self.calls += 1;
        self.ctx.clear_variables();
        let mut children = Vec::with_capacity(args.len());
        for (i, a) in args.iter().enumerate() {
            self.ctx
                .set_value(ARG_NAMES[i].to_string(), a.clone())
                .expect("delegate: fresh variable");
            children.push(mk(
                Operator::VariableIdentifierRead {
                    identifier: ARG_NAMES[i].to_string(),
                },
                vec![],
            ));
        }
        let template = mk(op.clone(), children);
        // through the mutable evaluator: the C08 oracle must not depend on the read-only path, and
        // C11's projection is defined in terms of the mutable evaluation
        let ctx = &mut self.ctx;
        std::panic::catch_unwind(std::panic::AssertUnwindSafe(|| {
            template.eval_with_context_mut(ctx)
        }))
        .map_err(|_| Skip::DelegatePanic)
    }

    /// Calls builtin function `name` (builtins enabled, no user functions) on `arg`.
    pub fn builtin(&mut self, name: &str, arg: &V) -> Result<R, Skip> {
        self.calls += 1;
        self.ctx.clear_variables();
        self.ctx
            .set_value(ARG_NAMES[0].to_string(), arg.clone())
            .expect("delegate: fresh variable");
        let template = mk(
            Operator::FunctionIdentifier {
                identifier: name.to_string(),
            },
            vec![mk(
                Operator::VariableIdentifierRead {
                    identifier: ARG_NAMES[0].to_string(),
                },
                vec![],
            )],
        );
        let ctx = &mut self.ctx;
        std::panic::catch_unwind(std::panic::AssertUnwindSafe(|| {
            template.eval_with_context_mut(ctx)
        }))
        .map_err(|_| Skip::DelegatePanic)
    }
}

/// The abstract environment: a map, a set of registered sentinel functions, the builtin switch.
pub struct RefEnv<'a> {
    pub vars: BTreeMap<String, V>,
    /// registered user functions: name -> sentinel behaviour
    pub fns: BTreeMap<String, String>,
    pub builtins_disabled: bool,
    pub kind: CtxKind,
    pub log: Vec<Ev>,
    pub faults: &'a [usize],
    pub fired: Vec<(usize, FaultKind)>,
    /// state of the registered functions with the stateful sentinel behaviour `c` (a counter that
    /// every call advances, except a call with the harness probe argument, which only reads it)
    pub counters: BTreeMap<String, i64>,
    /// a failed function call may be a panic of the user function (seam checks only)
    pub panic_faults: bool,
}

/// Result of the stateful sentinel `c` on `arg` given its current count; advances the count.
pub fn counter_sentinel(count: &mut i64, arg: &V) -> V {
    let n = *count;
    if *arg != Value::Int(crate::env::PROBE_ARG) {
        *count += 1;
    }
    Value::Int(n)
}

impl<'a> RefEnv<'a> {
    pub fn new(setup: &Setup, kind: CtxKind, faults: &'a [usize]) -> Self {
        let (vars, fns, builtins_disabled) = match kind {
            CtxKind::Empty => (BTreeMap::new(), BTreeMap::new(), true),
            CtxKind::EmptyBuiltins => (BTreeMap::new(), BTreeMap::new(), false),
            _ => (
                setup.vars.iter().cloned().collect(),
                setup.fns.iter().map(|f| (f.clone(), f.clone())).collect(),
                setup.builtins_disabled,
            ),
        };
        RefEnv {
            vars,
            fns,
            builtins_disabled,
            kind,
            log: Vec::new(),
            faults,
            fired: Vec::new(),
            counters: BTreeMap::new(),
            panic_faults: true,
        }
    }

    fn record(&mut self, ev: Ev, kind: FaultKind) -> Option<usize> {
        let idx = self.log.len();
        self.log.push(ev);
        if self.faults.binary_search(&idx).is_ok() {
            self.fired.push((idx, kind));
            Some(idx)
        } else {
            None
        }
    }

    fn get(&mut self, name: &str) -> Option<V> {
        if self.kind.records_vars()
            && self
                .record(Ev::Get(name.to_string()), FaultKind::GetNone)
                .is_some()
        {
            return None;
        }
        self.vars.get(name).cloned()
    }

    fn set(&mut self, name: String, value: V) -> Result<(), E> {
        if self.kind == CtxKind::NoStore {
            // default trait method: refuses, unrecorded
            return Err(EvalexprError::ContextNotMutable);
        }
        if self.kind.records_vars() {
            if let Some(idx) =
                self.record(Ev::Set(name.clone(), cv(&value)), FaultKind::SetError)
            {
                return Err(injected_error(idx));
            }
        }
        if let Some(old) = self.vars.get(&name) {
            if crate::canon::tag(old) != crate::canon::tag(&value) {
                return Err(expected_type_error(old, value));
            }
        }
        self.vars.insert(name, value);
        Ok(())
    }

    fn call(&mut self, name: &str, arg: &V, d: &mut Delegate) -> Result<R, Skip> {
        let behaviour = self.fns.get(name).cloned();
        let registered = behaviour.is_some();
        if self.kind.records_all_calls() || (self.kind == CtxKind::Bare && registered) {
            if let Some(idx) =
                self.record(Ev::Call(name.to_string(), cv(arg)), FaultKind::CallError)
            {
                if self.panic_faults && crate::env::call_fault_panics(idx, arg) {
                    // the user function panics: like an error nothing handles (carried to the
                    // top as a marked message, rendered there as the panic it stands for)
                    return Ok(Err(EvalexprError::CustomMessage(format!(
                        "{}{}{}",
                        PANIC_MARK,
                        crate::env::INJECTED_PANIC,
                        idx
                    ))));
                }
                let e = crate::env::injected_call_error(idx, arg);
                // a not-found error from the context - whatever name it carries - makes the
                // evaluator fall back to the builtin of the *called* name if builtins are enabled
                // (and report the called name if there is none); otherwise it passes through
                if matches!(e, EvalexprError::FunctionIdentifierNotFound(_)) && !self.builtins_disabled {
                    return d.builtin(name, arg);
                }
                return Ok(Err(e));
            }
        }
        if let Some(b) = behaviour {
            if b == "c" {
                let count = self.counters.entry(name.to_string()).or_insert(0);
                return Ok(Ok(counter_sentinel(count, arg)));
            }
            return Ok(Ok(sentinel(&b, arg)));
        }
        if !self.builtins_disabled {
            return d.builtin(name, arg);
        }
        Ok(Err(EvalexprError::FunctionIdentifierNotFound(
            name.to_string(),
        )))
    }

    pub fn snapshot_vars(&self) -> Vec<(String, String)> {
        self.vars.iter().map(|(n, v)| (n.clone(), cv(v))).collect()
    }

    pub fn snapshot_fns(&self) -> Vec<String> {
        if !self.kind.has_user_state() {
            return vec![format!("builtins_disabled:{}", self.builtins_disabled)];
        }
        let probe = Value::Int(41);
        let mut out = Vec::new();
        for n in FN_NAMES
            .iter()
            .chain([UNKNOWN_FN, "typeof", "max"].iter())
            .chain(SHADOW_NAMES.iter())
        {
            let r: R = if let Some(b) = self.fns.get(*n) {
                Ok(sentinel(b, &probe))
            } else {
                Err(EvalexprError::FunctionIdentifierNotFound(n.to_string()))
            };
            out.push(format!("{}:{}", n, cr(&r)));
        }
        out.push(format!("builtins_disabled:{}", self.builtins_disabled));
        out
    }
}

pub fn is_assignment_operator(op: &Operator) -> bool {
    use Operator::*;
    matches!(
        op,
        Assign
            | AddAssign
            | SubAssign
            | MulAssign
            | DivAssign
            | ModAssign
            | ExpAssign
            | AndAssign
            | OrAssign
    )
}

pub fn tree_has_assignment(node: &Node) -> bool {
    is_assignment_operator(node.operator()) || node.children().iter().any(tree_has_assignment)
}

/// True if the target of every plain `=` in the tree is an identifier (or a string constant): only
/// then does a mutable evaluation do nothing between evaluating the operands and asking the
/// context to store (a target that is not a string fails with ExpectedString before that).
pub fn assignment_targets_are_names(node: &Node) -> bool {
    let ok_here = if *node.operator() == Operator::Assign {
        // (a hand-edited assignment node with another number of operands is rejected for that by
        // the mutable entry, before it asks the context to store)
        node.children().len() == 2 && match node.children().first().map(|c| c.operator()) {
            Some(Operator::VariableIdentifierWrite { .. }) => true,
            Some(Operator::Const {
                value: Value::String(_),
            }) => true,
            _ => false,
        }
    } else {
        // ... and so is a leaf with children
        node.children().is_empty()
            || !matches!(
                node.operator(),
                Operator::Const { .. } | Operator::VariableIdentifierRead { .. } | Operator::VariableIdentifierWrite { .. }
            )
    };
    ok_here && node.children().iter().all(assignment_targets_are_names)
}

pub fn tree_has_op_assignment(node: &Node) -> bool {
    (is_assignment_operator(node.operator()) && *node.operator() != Operator::Assign)
        || node.children().iter().any(tree_has_op_assignment)
}

fn plain_of(op: &Operator) -> Option<Operator> {
    use Operator::*;
    Some(match op {
        AddAssign => Add,
        SubAssign => Sub,
        MulAssign => Mul,
        DivAssign => Div,
        ModAssign => Mod,
        ExpAssign => Exp,
        AndAssign => And,
        OrAssign => Or,
        _ => return None,
    })
}

/// Evaluates `node` in the reference semantics. `immutable` selects the read-only evaluator
/// (every assignment operator yields `ContextNotMutable` once its children are done).
#[allow(unreachable_patterns)]
pub fn ref_eval(
    node: &Node,
    env: &mut RefEnv,
    immutable: bool,
    d: &mut Delegate,
) -> Result<V, RefErr> {
    use Operator::*;
    // children first, left to right, stop at the first error
    let mut args: Vec<V> = Vec::with_capacity(node.children().len());
    for child in node.children() {
        args.push(ref_eval(child, env, immutable, d)?);
    }
    let op = node.operator();
    match op {
        RootNode => Ok(args.into_iter().next().unwrap_or(Value::Empty)),
        Const { value } => {
            // (children hung below a leaf by hand were evaluated above; then the count is wrong)
            if !args.is_empty() {
                return Err(EvalexprError::wrong_operator_argument_amount(args.len(), 0).into());
            }
            Ok(value.clone())
        },
        Tuple => Ok(Value::Tuple(args)),
        Chain => {
            if args.is_empty() {
                return Err(RefErr::Skip(Skip::Arity("empty Chain")));
            }
            Ok(args.pop().unwrap())
        },
        VariableIdentifierWrite { identifier } => {
            if !args.is_empty() {
                return Err(EvalexprError::wrong_operator_argument_amount(args.len(), 0).into());
            }
            Ok(Value::String(identifier.clone()))
        },
        VariableIdentifierRead { identifier } => {
            if !args.is_empty() {
                return Err(EvalexprError::wrong_operator_argument_amount(args.len(), 0).into());
            }
            match env.get(identifier) {
                Some(v) => Ok(v),
                None => Err(EvalexprError::VariableIdentifierNotFound(identifier.clone()).into()),
            }
        },
        FunctionIdentifier { identifier } => {
            if args.len() != 1 {
                return Err(EvalexprError::wrong_operator_argument_amount(args.len(), 1).into());
            }
            Ok(env.call(identifier, &args[0], d).map_err(RefErr::Skip)??)
        },
        Assign | AddAssign | SubAssign | MulAssign | DivAssign | ModAssign | ExpAssign
        | AndAssign | OrAssign => {
            if immutable {
                return Err(EvalexprError::ContextNotMutable.into());
            }
            if args.len() != 2 {
                return Err(EvalexprError::wrong_operator_argument_amount(args.len(), 2).into());
            }
            let target = match &args[0] {
                Value::String(s) => s.clone(),
                other => return Err(EvalexprError::expected_string(other.clone()).into()),
            };
            let rhs = args.pop().unwrap();
            let new_value = match plain_of(op) {
                None => rhs,
                Some(plain) => {
                    // the variable is read after the right-hand side was evaluated
                    let left = match env.get(&target) {
                        Some(v) => v,
                        None => {
                            return Err(
                                EvalexprError::VariableIdentifierNotFound(target.clone()).into()
                            )
                        },
                    };
                    match plain {
                        And | Or => match (&left, &rhs) {
                            (Value::Boolean(l), Value::Boolean(r)) => {
                                Value::Boolean(if plain == And { *l && *r } else { *l || *r })
                            },
                            (Value::Boolean(_), other) | (other, _) => {
                                return Err(EvalexprError::expected_boolean(other.clone()).into())
                            },
                        },
                        Sub | Mul | Div | Mod | Exp => {
                            for a in [&left, &rhs] {
                                if !matches!(a, Value::Int(_) | Value::Float(_)) {
                                    return Err(EvalexprError::expected_number(a.clone()).into());
                                }
                            }
                            d.apply(&plain, &[left, rhs]).map_err(RefErr::Skip)??
                        },
                        _ => d.apply(&plain, &[left, rhs]).map_err(RefErr::Skip)??,
                    }
                },
            };
            env.set(target, new_value)?;
            Ok(Value::Empty)
        },
        // the boolean operators are specified here, not delegated: every operand must be a Boolean
        // (first offender, in order, is reported); nothing is short-circuited at any level
        And | Or if args.len() == 2 => {
            let mut b = [false; 2];
            for (i, a) in args.iter().enumerate() {
                match a {
                    Value::Boolean(x) => b[i] = *x,
                    other => return Err(EvalexprError::expected_boolean(other.clone()).into()),
                }
            }
            Ok(Value::Boolean(if *op == And { b[0] && b[1] } else { b[0] || b[1] }))
        },
        Not if args.len() == 1 => match &args[0] {
            Value::Boolean(x) => Ok(Value::Boolean(!*x)),
            other => Err(EvalexprError::expected_boolean(other.clone()).into()),
        },
        // "the first error wins" inside an operator too: the numeric operators look at their left
        // operand first (specified here; the arithmetic itself is delegated)
        Sub | Mul | Div | Mod | Exp if args.len() == 2 => {
            for a in args.iter() {
                if !matches!(a, Value::Int(_) | Value::Float(_)) {
                    return Err(EvalexprError::expected_number(a.clone()).into());
                }
            }
            Ok(d.apply(op, &args).map_err(RefErr::Skip)??)
        },
        Add | Sub | Neg | Mul | Div | Mod | Exp | Eq | Neq | Gt | Lt | Geq | Leq | And | Or
        | Not => Ok(d.apply(op, &args).map_err(RefErr::Skip)??),
        _ => Err(RefErr::Skip(Skip::UnknownOperator)),
    }
}

/// Runs the reference on a tree and packages the prediction like a real outcome.
pub fn run_ref(
    tree: &Node,
    setup: &Setup,
    kind: CtxKind,
    immutable: bool,
    typed: usize,
    faults: &[usize],
    d: &mut Delegate,
) -> Result<Outcome, Skip> {
    let mut env = RefEnv::new(setup, kind, faults);
    let result = match ref_eval(tree, &mut env, immutable, d) {
        Ok(v) => Ok(v),
        Err(RefErr::Lib(e)) => Err(e),
        Err(RefErr::Skip(s)) => return Err(s),
    };
    let result = crate::env::project_typed(result, typed);
    let rendered = match &result {
        Err(EvalexprError::CustomMessage(m)) if m.starts_with(PANIC_MARK) => {
            format!("PANIC: {}", &m[PANIC_MARK.len()..])
        },
        other => cr(other),
    };
    Ok(Outcome {
        result: rendered,
        vars: env.snapshot_vars(),
        fns: env.snapshot_fns(),
        log: env.log,
        fired: env.fired,
        panicked: false,
    })
}
