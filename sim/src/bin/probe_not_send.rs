//! Second compile-time gate of C15: "decided by the type checker" cuts both ways. With a numeric
//! type that is not thread-safe (an integer that carries an `Rc`), `Value`, `Operator`, `Node`,
//! `EvalexprError` and `HashMapContext` must NOT be `Send` or `Sync`; a crate that promises them
//! anyway (an `unsafe impl` without bounds) lets safe code race non-atomic reference counts.
//!
//! This binary compiles iff none of those types is `Send`/`Sync` for such numbers: each assertion
//! becomes an ambiguous-impl error (E0282/E0283 naming `PromisedThreadSafeAlthoughItsNumbersAreNot`)
//! if the trait is implemented. Any *other* compile error (the numeric-type traits changed) means
//! the probe does not apply and is not a verdict; `./check` tells the two apart.

use evalexpr::{
    EvalexprError, EvalexprInt, EvalexprNumericTypes, EvalexprResult, HashMapContext, Node, Operator, Value,
};
use std::{fmt, rc::Rc, str::FromStr};

/// An integer with an optional, shared unit label. `Rc` makes it neither `Send` nor `Sync`.
#[derive(Clone, Debug)]
pub struct TaggedInt {
    value: i64,
    unit: Option<Rc<str>>,
}

impl TaggedInt {
    fn plain(value: i64) -> Self {
        Self { value, unit: None }
    }
}

impl PartialEq for TaggedInt {
    fn eq(&self, other: &Self) -> bool {
        self.value == other.value
    }
}
impl Eq for TaggedInt {}
impl PartialOrd for TaggedInt {
    fn partial_cmp(&self, other: &Self) -> Option<std::cmp::Ordering> {
        Some(self.cmp(other))
    }
}
impl Ord for TaggedInt {
    fn cmp(&self, other: &Self) -> std::cmp::Ordering {
        self.value.cmp(&other.value)
    }
}
impl fmt::Display for TaggedInt {
    fn fmt(&self, f: &mut fmt::Formatter) -> fmt::Result {
        write!(f, "{}", self.value)
    }
}
impl FromStr for TaggedInt {
    type Err = std::num::ParseIntError;
    fn from_str(s: &str) -> Result<Self, Self::Err> {
        s.parse().map(TaggedInt::plain)
    }
}

#[derive(Debug, Clone, PartialEq)]
pub struct Tagged;

impl EvalexprNumericTypes for Tagged {
    type Int = TaggedInt;
    type Float = f64;

    fn int_as_float(int: &Self::Int) -> Self::Float {
        int.value as f64
    }
    fn float_as_int(float: &Self::Float) -> Self::Int {
        TaggedInt::plain(*float as i64)
    }
}

fn overflow() -> EvalexprError<Tagged> {
    EvalexprError::CustomMessage("integer overflow".into())
}

impl EvalexprInt<Tagged> for TaggedInt {
    const MIN: Self = TaggedInt { value: i64::MIN, unit: None };
    const MAX: Self = TaggedInt { value: i64::MAX, unit: None };

    fn from_usize(int: usize) -> EvalexprResult<Self, Tagged> {
        i64::try_from(int).map(TaggedInt::plain).map_err(|_| EvalexprError::IntFromUsize { usize_int: int })
    }
    fn into_usize(&self) -> EvalexprResult<usize, Tagged> {
        usize::try_from(self.value).map_err(|_| EvalexprError::IntIntoUsize { int: self.clone() })
    }
    fn from_hex_str(literal: &str) -> Result<Self, ()> {
        i64::from_str_radix(literal, 16).map(TaggedInt::plain).map_err(|_| ())
    }
    fn checked_add(&self, rhs: &Self) -> EvalexprResult<Self, Tagged> {
        self.value
            .checked_add(rhs.value)
            .map(|value| TaggedInt { value, unit: self.unit.clone() })
            .ok_or_else(overflow)
    }
    fn checked_sub(&self, rhs: &Self) -> EvalexprResult<Self, Tagged> {
        self.value.checked_sub(rhs.value).map(TaggedInt::plain).ok_or_else(overflow)
    }
    fn checked_neg(&self) -> EvalexprResult<Self, Tagged> {
        self.value.checked_neg().map(TaggedInt::plain).ok_or_else(overflow)
    }
    fn checked_mul(&self, rhs: &Self) -> EvalexprResult<Self, Tagged> {
        self.value.checked_mul(rhs.value).map(TaggedInt::plain).ok_or_else(overflow)
    }
    fn checked_div(&self, rhs: &Self) -> EvalexprResult<Self, Tagged> {
        self.value.checked_div(rhs.value).map(TaggedInt::plain).ok_or_else(overflow)
    }
    fn checked_rem(&self, rhs: &Self) -> EvalexprResult<Self, Tagged> {
        self.value.checked_rem(rhs.value).map(TaggedInt::plain).ok_or_else(overflow)
    }
    fn abs(&self) -> EvalexprResult<Self, Tagged> {
        self.value.checked_abs().map(TaggedInt::plain).ok_or_else(overflow)
    }
    fn bitand(&self, rhs: &Self) -> Self {
        TaggedInt::plain(self.value & rhs.value)
    }
    fn bitor(&self, rhs: &Self) -> Self {
        TaggedInt::plain(self.value | rhs.value)
    }
    fn bitxor(&self, rhs: &Self) -> Self {
        TaggedInt::plain(self.value ^ rhs.value)
    }
    fn bitnot(&self) -> Self {
        TaggedInt::plain(!self.value)
    }
    fn bit_shift_left(&self, rhs: &Self) -> Self {
        TaggedInt::plain(self.value.wrapping_shl(rhs.value as u32))
    }
    fn bit_shift_right(&self, rhs: &Self) -> Self {
        TaggedInt::plain(self.value.wrapping_shr(rhs.value as u32))
    }
}

/// Compiles iff `$t` does NOT implement `$tr`: if it does, two impls of the helper trait apply and
/// the type parameter cannot be inferred.
macro_rules! assert_not_impl {
    ($t:ty, $tr:path) => {
        const _: fn() = || {
            trait PromisedThreadSafeAlthoughItsNumbersAreNot<A> {
                fn some_item() {}
            }
            impl<T: ?Sized> PromisedThreadSafeAlthoughItsNumbersAreNot<()> for T {}
            #[allow(dead_code)]
            struct Invalid;
            impl<T: ?Sized + $tr> PromisedThreadSafeAlthoughItsNumbersAreNot<Invalid> for T {}
            let _ = <$t as PromisedThreadSafeAlthoughItsNumbersAreNot<_>>::some_item;
        };
    };
}

// the probe itself is sound: the number is not thread-safe
assert_not_impl!(TaggedInt, Send);
assert_not_impl!(TaggedInt, Sync);

// the sentence under test
assert_not_impl!(Value<Tagged>, Send);
assert_not_impl!(Value<Tagged>, Sync);
assert_not_impl!(Operator<Tagged>, Send);
assert_not_impl!(Operator<Tagged>, Sync);
assert_not_impl!(Node<Tagged>, Send);
assert_not_impl!(Node<Tagged>, Sync);
assert_not_impl!(EvalexprError<Tagged>, Send);
assert_not_impl!(EvalexprError<Tagged>, Sync);
assert_not_impl!(HashMapContext<Tagged>, Send);
assert_not_impl!(HashMapContext<Tagged>, Sync);

fn main() {
    // (a use of the type, so that the numeric traits are instantiated)
    let tree = evalexpr::build_operator_tree::<Tagged>("1 + 2").expect("parse");
    let mut ctx = HashMapContext::<Tagged>::new();
    let _ = evalexpr::ContextWithMutableVariables::set_value(
        &mut ctx,
        "x".into(),
        Value::Int(TaggedInt { value: 1, unit: Some(Rc::from("kg")) }),
    );
    println!("{:?}", tree.eval_with_context(&ctx).map(|v| v.to_string()));
    println!("with thread-unsafe numbers, Value / Operator / Node / EvalexprError / HashMapContext are neither Send nor Sync");
}
