//! C15: shared trees, values, errors and contexts used from several simulated threads under the
//! deterministic scheduler; every concurrent result must equal its sequential counterpart, and
//! the shared objects must be unchanged afterwards.

use crate::sched::{self, SimReport};
use evalexpr::{
    build_operator_tree, Context, ContextWithMutableFunctions, ContextWithMutableVariables,
    DefaultNumericTypes, EmptyContext, EmptyContextWithBuiltinFunctions, EvalexprError, Function,
    HashMapContext, IterateVariablesContext, Node, Value,
};
use std::sync::Arc;
use verifsim::canon::{ce, cr, cv, value_from_json, value_to_json, V};
use verifsim::env::{sentinel, Setup, FN_NAMES};
use verifsim::gen::{any_value, gen_setup, Gen, GenCfg};
use verifsim::json::Json;
use verifsim::prog::Expr;
use verifsim::rng::Rng;

type Ctx = HashMapContext<DefaultNumericTypes>;

#[derive(Clone, Copy, Debug, PartialEq, Eq)]
pub enum CtxSel {
    Main,
    NoBuiltins,
    Empty,
    EmptyBuiltins,
}

impl CtxSel {
    fn name(self) -> &'static str {
        match self {
            CtxSel::Main => "hashmap",
            CtxSel::NoBuiltins => "hashmap_no_builtins",
            CtxSel::Empty => "empty",
            CtxSel::EmptyBuiltins => "empty_builtins",
        }
    }
    fn from_name(s: &str) -> Option<CtxSel> {
        [CtxSel::Main, CtxSel::NoBuiltins, CtxSel::Empty, CtxSel::EmptyBuiltins]
            .into_iter()
            .find(|c| c.name() == s)
    }
}

pub const TYPED_ENTRIES: [&str; 8] = ["value", "int", "float", "number", "boolean", "string", "tuple", "empty"];

#[derive(Clone, Debug, PartialEq)]
pub enum TOp {
    /// evaluate shared tree x shared context through a typed or untyped `*_with_context` entry
    EvalTree { tree: usize, ctx: CtxSel, entry: usize },
    /// parse + evaluate a source string against a shared context
    EvalStr { src: usize, ctx: CtxSel },
    /// `build_operator_tree` of a source string
    Build { src: usize },
    /// the five identifier iterators of a shared tree
    Iter { tree: usize },
    /// Display / Debug / clone / == of shared trees, values, errors
    Render { tree: usize },
    /// clone the shared context into a private one and run mutable programs on it
    PrivateScript { programs: Vec<usize> },
    /// run mutable programs on a thread-private context created from scratch
    FreshScript { programs: Vec<usize> },
    /// clone a shared tree, rename identifiers through the mutable iterators, evaluate the clone
    CloneRename { tree: usize },
    /// `Node::eval()` of a shared tree (implicit fresh context)
    EvalImplicit { tree: usize },
    /// call the panicking user function `p` (through an expression) with an argument for which it
    /// panics (13 / 14) or not, then evaluate an ordinary call; panics are caught by the harness
    Panicky { arg: i64 },
    /// build a context on this thread (function table chosen by `variant`) and keep it; after the
    /// run all contexts built by all threads are moved to the main thread and probed there
    BuildContext { variant: usize },
    /// clone-edit-publish, `n` times: clone the currently published context (other threads may be
    /// evaluating against it), re-assign a variable to the value it has, publish the clone as the
    /// next generation; finally a snapshot of the last generation
    Reload { n: usize },
    /// `n` evaluations of a shared tree, each against the context published at that moment; the
    /// distinct results in order of first appearance (every generation behaves like the first)
    Hammer { tree: usize, n: usize },
}

impl TOp {
    pub fn to_json(&self) -> Json {
        let progs = |p: &Vec<usize>| Json::Arr(p.iter().map(|i| Json::u(*i as u64)).collect());
        match self {
            TOp::EvalTree { tree, ctx, entry } => Json::obj()
                .with("op", Json::s("eval_tree"))
                .with("tree", Json::u(*tree as u64))
                .with("ctx", Json::s(ctx.name()))
                .with("entry", Json::s(TYPED_ENTRIES[*entry])),
            TOp::EvalStr { src, ctx } => Json::obj()
                .with("op", Json::s("eval_str"))
                .with("src", Json::u(*src as u64))
                .with("ctx", Json::s(ctx.name())),
            TOp::Build { src } => Json::obj().with("op", Json::s("build")).with("src", Json::u(*src as u64)),
            TOp::Iter { tree } => Json::obj().with("op", Json::s("iter")).with("tree", Json::u(*tree as u64)),
            TOp::Render { tree } => Json::obj().with("op", Json::s("render")).with("tree", Json::u(*tree as u64)),
            TOp::PrivateScript { programs } => Json::obj().with("op", Json::s("private_script")).with("programs", progs(programs)),
            TOp::FreshScript { programs } => Json::obj().with("op", Json::s("fresh_script")).with("programs", progs(programs)),
            TOp::CloneRename { tree } => Json::obj().with("op", Json::s("clone_rename")).with("tree", Json::u(*tree as u64)),
            TOp::EvalImplicit { tree } => Json::obj().with("op", Json::s("eval_implicit")).with("tree", Json::u(*tree as u64)),
            TOp::BuildContext { variant } => Json::obj().with("op", Json::s("build_context")).with("variant", Json::u(*variant as u64)),
            TOp::Panicky { arg } => Json::obj().with("op", Json::s("panicky")).with("arg", Json::i(*arg)),
            TOp::Reload { n } => Json::obj().with("op", Json::s("reload")).with("n", Json::u(*n as u64)),
            TOp::Hammer { tree, n } => Json::obj()
                .with("op", Json::s("hammer"))
                .with("tree", Json::u(*tree as u64))
                .with("n", Json::u(*n as u64)),
        }
    }

    pub fn from_json(j: &Json) -> Result<TOp, String> {
        let progs = |j: &Json| -> Result<Vec<usize>, String> {
            Ok(j.arr_field("programs")?.iter().filter_map(|x| x.as_u64()).map(|x| x as usize).collect())
        };
        let ctx = |j: &Json| -> Result<CtxSel, String> {
            CtxSel::from_name(j.str_field("ctx")?).ok_or_else(|| "unknown ctx".to_string())
        };
        Ok(match j.str_field("op")? {
            "eval_tree" => TOp::EvalTree {
                tree: j.u64_field("tree")? as usize,
                ctx: ctx(j)?,
                entry: TYPED_ENTRIES.iter().position(|e| *e == j.str_field("entry").unwrap_or("")).ok_or("unknown entry")?,
            },
            "eval_str" => TOp::EvalStr { src: j.u64_field("src")? as usize, ctx: ctx(j)? },
            "build" => TOp::Build { src: j.u64_field("src")? as usize },
            "iter" => TOp::Iter { tree: j.u64_field("tree")? as usize },
            "render" => TOp::Render { tree: j.u64_field("tree")? as usize },
            "private_script" => TOp::PrivateScript { programs: progs(j)? },
            "fresh_script" => TOp::FreshScript { programs: progs(j)? },
            "clone_rename" => TOp::CloneRename { tree: j.u64_field("tree")? as usize },
            "eval_implicit" => TOp::EvalImplicit { tree: j.u64_field("tree")? as usize },
            "build_context" => TOp::BuildContext { variant: j.u64_field("variant")? as usize },
            "panicky" => TOp::Panicky { arg: j.get("arg").and_then(|a| a.as_i64()).unwrap_or(0) },
            "reload" => TOp::Reload { n: j.u64_field("n")? as usize },
            "hammer" => TOp::Hammer { tree: j.u64_field("tree")? as usize, n: j.u64_field("n")? as usize },
            other => return Err(format!("unknown thread op {}", other)),
        })
    }
}

/// The explicit workload of one simulation (what a replay file stores).
#[derive(Clone, Debug, PartialEq)]
pub struct Workload {
    /// shared read-only programs (compiled to trees before the run)
    pub trees: Vec<Expr>,
    /// assemble (true) or parse (false) each tree
    pub assembled: Vec<bool>,
    /// source strings for parse-at-runtime operations
    pub sources: Vec<String>,
    /// mutable scripts for private contexts
    pub scripts: Vec<Expr>,
    pub setup: Setup,
    pub values: Vec<V>,
    pub threads: Vec<Vec<TOp>>,
    /// additional shared trees given as source text (parsed before the run; indices continue
    /// after `trees`)
    pub extra_tree_sources: Vec<String>,
    /// compute the sequential baseline on an independently built copy of the shared objects, so
    /// that the objects under test are used concurrently for the very first time
    pub fresh: bool,
    /// with `fresh`: the concurrent phase runs BEFORE the sequential baseline, so names and
    /// sources of this workload meet their first use in the process concurrently
    pub cold: bool,
    /// afterwards the first thread's operations run once more on the process's early-bird thread
    pub early: bool,
}

impl Workload {
    pub fn to_json(&self) -> Json {
        Json::obj()
            .with("tree_sources", Json::arr_of_str(self.trees.iter().map(|t| t.render())))
            .with("script_sources", Json::arr_of_str(self.scripts.iter().map(|t| t.render())))
            .with("trees", Json::Arr(self.trees.iter().map(|t| t.to_json()).collect()))
            .with("assembled", Json::Arr(self.assembled.iter().map(|b| Json::Bool(*b)).collect()))
            .with("sources", Json::arr_of_str(self.sources.iter().cloned()))
            .with("scripts", Json::Arr(self.scripts.iter().map(|t| t.to_json()).collect()))
            .with("setup", self.setup.to_json())
            .with("values", Json::Arr(self.values.iter().map(value_to_json).collect()))
            .with("extra_tree_sources", Json::arr_of_str(self.extra_tree_sources.iter().cloned()))
            .with("fresh", Json::Bool(self.fresh))
            .with("cold", Json::Bool(self.cold))
            .with("early", Json::Bool(self.early))
            .with(
                "threads",
                Json::Arr(
                    self.threads
                        .iter()
                        .map(|ops| Json::Arr(ops.iter().map(|o| o.to_json()).collect()))
                        .collect(),
                ),
            )
    }

    pub fn from_json(j: &Json) -> Result<Workload, String> {
        let exprs = |key: &str| -> Result<Vec<Expr>, String> {
            let mut v = Vec::new();
            for e in j.arr_field(key)? {
                v.push(Expr::from_json(e)?);
            }
            Ok(v)
        };
        let mut threads = Vec::new();
        for t in j.arr_field("threads")? {
            let mut ops = Vec::new();
            for o in t.as_arr().ok_or("bad thread")? {
                ops.push(TOp::from_json(o)?);
            }
            threads.push(ops);
        }
        let mut values = Vec::new();
        for v in j.arr_field("values")? {
            values.push(value_from_json(v)?);
        }
        Ok(Workload {
            trees: exprs("trees")?,
            assembled: j.arr_field("assembled")?.iter().map(|b| b.as_bool().unwrap_or(true)).collect(),
            sources: j.arr_field("sources")?.iter().filter_map(|s| s.as_str()).map(|s| s.to_string()).collect(),
            scripts: exprs("scripts")?,
            setup: Setup::from_json(j.field("setup")?)?,
            values,
            threads,
            extra_tree_sources: j
                .get("extra_tree_sources")
                .and_then(|a| a.as_arr())
                .map(|a| a.iter().filter_map(|s| s.as_str()).map(|s| s.to_string()).collect())
                .unwrap_or_default(),
            fresh: j.get("fresh").and_then(|b| b.as_bool()).unwrap_or(false),
            cold: j.get("cold").and_then(|b| b.as_bool()).unwrap_or(false),
            early: j.get("early").and_then(|b| b.as_bool()).unwrap_or(false),
        })
    }

    pub fn weight(&self) -> usize {
        self.threads.iter().map(|t| t.len()).sum::<usize>() * 10
            + self.trees.iter().map(|t| t.size()).sum::<usize>()
            + self.scripts.iter().map(|t| t.size()).sum::<usize>()
            + self.sources.iter().map(|s| s.len()).sum::<usize>() / 4
            + self.threads.len() * 5
    }
}

/// The shared, immutable objects of a simulation.
pub struct Shared {
    pub trees: Vec<Node>,
    pub ctx_main: Ctx,
    pub ctx_nobuiltins: Ctx,
    pub empty: EmptyContext<DefaultNumericTypes>,
    pub empty_builtins: EmptyContextWithBuiltinFunctions<DefaultNumericTypes>,
    pub values: Vec<V>,
    pub errors: Vec<EvalexprError>,
    pub functions: Vec<Function<DefaultNumericTypes>>,
    pub sources: Vec<String>,
    pub scripts: Vec<Node>,
    /// the context published last by `Reload` (generation 0: a clone of `ctx_main`); the lock is
    /// held only to copy or replace the pointer, never across a library call
    pub published: std::sync::Mutex<Arc<Ctx>>,
}

fn pure_function(name: &'static str) -> Function<DefaultNumericTypes> {
    Function::new(move |arg: &V| Ok(sentinel(name, arg)))
}

/// `p`: identity, except that it panics (message carries the argument) for Int 13 and Int 14 -
/// a user function that fails hard for particular inputs. The harness catches the unwind; other
/// evaluations, in this or other threads, must be unaffected by it.
fn panicking_function() -> Function<DefaultNumericTypes> {
    Function::new(move |arg: &V| match arg {
        Value::Int(13) => panic!("sentinel panic 13"),
        Value::Int(14) => panic!("sentinel panic 14"),
        other => Ok(other.clone()),
    })
}

fn build_ctx(setup: &Setup, disabled: bool) -> Ctx {
    let mut ctx = Ctx::new();
    for (n, v) in &setup.vars {
        // the two shared HashMapContexts differ in their string values (per-node caches keyed by
        // operand values see different operands when one tree is evaluated against both)
        let v = match v {
            Value::String(s) if disabled => Value::String(format!("{}~", s)),
            other => other.clone(),
        };
        ctx.set_value(n.clone(), v).expect("setup");
    }
    for f in &setup.fns {
        if let Some(name) = FN_NAMES.iter().copied().find(|n| n == f) {
            ctx.set_function(name.to_string(), pure_function(name)).expect("setup");
        }
    }
    ctx.set_function("p".to_string(), panicking_function()).expect("setup");
    // `c`: a stateful counter owned by the closure; a clone of the context gets a copy of it
    ctx.set_function("c".to_string(), verifsim::env::counter_function("c".to_string(), None))
        .expect("setup");
    // `q`: a dispatcher that does not know what it was asked for - a user function that itself
    // fails with a not-found error (the evaluator then tries the builtin of the called name)
    ctx.set_function(
        "q".to_string(),
        Function::new(|_arg: &V| Err(EvalexprError::FunctionIdentifierNotFound("inner".to_string()))),
    )
    .expect("setup");
    ctx.set_builtin_functions_disabled(disabled).expect("setup");
    ctx
}

pub fn build_shared(w: &Workload) -> Result<Shared, String> {
    let mut trees = Vec::new();
    for (i, t) in w.trees.iter().enumerate() {
        let assembled = w.assembled.get(i).copied().unwrap_or(true);
        if assembled || !t.is_renderable() {
            trees.push(t.assemble(true));
        } else {
            trees.push(build_operator_tree::<DefaultNumericTypes>(&t.render()).map_err(|e| format!("{:?}", e))?);
        }
    }
    for src in &w.extra_tree_sources {
        trees.push(build_operator_tree::<DefaultNumericTypes>(src).map_err(|e| format!("{:?}", e))?);
    }
    let scripts: Vec<Node> = w.scripts.iter().map(|s| s.assemble(true)).collect();
    let errors = vec![
        EvalexprError::expected_int(Value::Float(1.5)),
        EvalexprError::VariableIdentifierNotFound("zz".into()),
        EvalexprError::CustomMessage("m".into()),
        EvalexprError::wrong_operator_argument_amount(1, 2),
    ];
    let ctx_main = build_ctx(&w.setup, false);
    Ok(Shared {
        trees,
        published: std::sync::Mutex::new(Arc::new(ctx_main.clone())),
        ctx_main,
        ctx_nobuiltins: build_ctx(&w.setup, true),
        empty: EmptyContext::default(),
        empty_builtins: EmptyContextWithBuiltinFunctions::default(),
        values: w.values.clone(),
        errors,
        functions: FN_NAMES.iter().map(|n| pure_function(n)).collect(),
        sources: w.sources.clone(),
        scripts,
    })
}

fn render_result<T: std::fmt::Debug>(r: &Result<T, EvalexprError>) -> String {
    match r {
        Ok(v) => format!("Ok({:?})", v),
        Err(e) => format!("Err({})", ce(e)),
    }
}

fn eval_entry<C: Context<NumericTypes = DefaultNumericTypes>>(tree: &Node, ctx: &C, entry: usize) -> String {
    match entry {
        0 => cr(&tree.eval_with_context(ctx)),
        1 => render_result(&tree.eval_int_with_context(ctx)),
        2 => match tree.eval_float_with_context(ctx) {
            Ok(f) => format!("Ok({})", cv(&Value::Float(f))),
            Err(e) => format!("Err({})", ce(&e)),
        },
        3 => match tree.eval_number_with_context(ctx) {
            Ok(f) => format!("Ok({})", cv(&Value::Float(f))),
            Err(e) => format!("Err({})", ce(&e)),
        },
        4 => render_result(&tree.eval_boolean_with_context(ctx)),
        5 => render_result(&tree.eval_string_with_context(ctx)),
        6 => match tree.eval_tuple_with_context(ctx) {
            Ok(t) => format!("Ok({})", cv(&Value::Tuple(t))),
            Err(e) => format!("Err({})", ce(&e)),
        },
        _ => render_result(&tree.eval_empty_with_context(ctx)),
    }
}

fn snapshot(ctx: &Ctx) -> String {
    let mut v: Vec<String> = ctx.iter_variables().map(|(n, v)| format!("{}={}", n, cv(&v))).collect();
    v.sort();
    let mut names: Vec<String> = ctx.iter_variable_names().collect();
    names.sort();
    let probe = Value::Int(41);
    let fns: Vec<String> = FN_NAMES
        .iter()
        .map(|n| format!("{}:{}", n, cr(&ctx.call_function(n, &probe))))
        .collect();
    format!(
        "vars=[{}] names=[{}] fns=[{}] disabled={}",
        v.join(", "),
        names.join(","),
        fns.join(", "),
        ctx.are_builtin_functions_disabled()
    )
}

fn run_script(ctx: &mut Ctx, sh: &Shared, programs: &[usize]) -> String {
    let mut out = Vec::new();
    for p in programs {
        if let Some(tree) = sh.scripts.get(*p) {
            out.push(cr(&tree.eval_with_context_mut(ctx)));
        }
    }
    // the private context's own copy of the stateful function (never called on the shared one)
    let arg = Value::Int(1);
    for _ in 0..3 {
        out.push(format!("c={}", cr(&ctx.call_function("c", &arg))));
    }
    format!("{} => {}", out.join(" ; "), snapshot(ctx))
}

/// Executes one thread operation; the canonical rendering of everything it observed. A panic of
/// the library is rendered too (never-panics is C01's subject; here only the difference between
/// the sequential and the concurrent execution counts).
pub fn exec(op: &TOp, sh: &Shared) -> String {
    match std::panic::catch_unwind(std::panic::AssertUnwindSafe(|| exec_inner(op, sh))) {
        Ok(s) => s,
        Err(_) => format!("PANIC: {}", verifsim::env::last_panic()),
    }
}

fn exec_inner(op: &TOp, sh: &Shared) -> String {
    match op {
        TOp::EvalTree { tree, ctx, entry } => {
            let t = match sh.trees.get(*tree) {
                Some(t) => t,
                None => return "no such tree".into(),
            };
            match ctx {
                CtxSel::Main => eval_entry(t, &sh.ctx_main, *entry),
                CtxSel::NoBuiltins => eval_entry(t, &sh.ctx_nobuiltins, *entry),
                CtxSel::Empty => eval_entry(t, &sh.empty, *entry),
                CtxSel::EmptyBuiltins => eval_entry(t, &sh.empty_builtins, *entry),
            }
        },
        TOp::EvalStr { src, ctx } => {
            let s = match sh.sources.get(*src) {
                Some(s) => s,
                None => return "no such source".into(),
            };
            match ctx {
                CtxSel::Main => cr(&evalexpr::eval_with_context(s, &sh.ctx_main)),
                CtxSel::NoBuiltins => cr(&evalexpr::eval_with_context(s, &sh.ctx_nobuiltins)),
                CtxSel::Empty => cr(&evalexpr::eval_with_context(s, &sh.empty)),
                CtxSel::EmptyBuiltins => cr(&evalexpr::eval_with_context(s, &sh.empty_builtins)),
            }
        },
        TOp::Build { src } => {
            let s = match sh.sources.get(*src) {
                Some(s) => s,
                None => return "no such source".into(),
            };
            match build_operator_tree::<DefaultNumericTypes>(s) {
                Ok(t) => format!("Ok({:?} | {})", t, t),
                Err(e) => format!("Err({})", ce(&e)),
            }
        },
        TOp::Iter { tree } => {
            let t = match sh.trees.get(*tree) {
                Some(t) => t,
                None => return "no such tree".into(),
            };
            let a: Vec<&str> = t.iter_identifiers().collect();
            let b: Vec<&str> = t.iter_variable_identifiers().collect();
            let c: Vec<&str> = t.iter_read_variable_identifiers().collect();
            let d: Vec<&str> = t.iter_write_variable_identifiers().collect();
            let e: Vec<&str> = t.iter_function_identifiers().collect();
            let n = t.iter().count();
            format!("{:?} {:?} {:?} {:?} {:?} nodes={}", a, b, c, d, e, n)
        },
        TOp::Render { tree } => {
            let t = match sh.trees.get(*tree) {
                Some(t) => t,
                None => return "no such tree".into(),
            };
            let clone = t.clone();
            let mut s = format!("{} | {:?} | eq={}", t, t, clone == *t);
            for v in &sh.values {
                let c = v.clone();
                s.push_str(&format!(" | {} {:?} {}", v, v, cv(&c)));
            }
            for e in &sh.errors {
                let c = e.clone();
                s.push_str(&format!(" | {} {:?} eq={}", e, e, c == *e));
            }
            for f in &sh.functions {
                let c = f.clone();
                s.push_str(&format!(" | {:?}", c));
            }
            s
        },
        TOp::PrivateScript { programs } => {
            let mut ctx = sh.ctx_main.clone();
            run_script(&mut ctx, sh, programs)
        },
        TOp::FreshScript { programs } => {
            let mut ctx = Ctx::new();
            for f in FN_NAMES {
                let _ = ctx.set_function(f.to_string(), pure_function(f));
            }
            run_script(&mut ctx, sh, programs)
        },
        TOp::CloneRename { tree } => {
            let t = match sh.trees.get(*tree) {
                Some(t) => t,
                None => return "no such tree".into(),
            };
            let mut c = t.clone();
            for id in c.iter_variable_identifiers_mut() {
                if id == "a" {
                    *id = "b".to_string();
                }
            }
            let n = c.iter_operators_mut().count();
            format!("{} ops={} {}", c, n, cr(&c.eval_with_context(&sh.ctx_main)))
        },
        TOp::EvalImplicit { tree } => {
            let t = match sh.trees.get(*tree) {
                Some(t) => t,
                None => return "no such tree".into(),
            };
            cr(&t.eval())
        },
        TOp::Panicky { arg } => {
            let call = verifsim::prog::Expr::Bin(
                verifsim::prog::Bin::Add,
                Box::new(verifsim::prog::Expr::Call(
                    "p".to_string(),
                    Some(Box::new(verifsim::prog::Expr::Lit(Value::Int(*arg)))),
                )),
                Box::new(verifsim::prog::Expr::Lit(Value::Int(1))),
            )
            .assemble(true);
            let after = verifsim::prog::Expr::Call(
                "p".to_string(),
                Some(Box::new(verifsim::prog::Expr::Lit(Value::Int(5)))),
            )
            .assemble(true);
            let ctx = &sh.ctx_main;
            let first = match std::panic::catch_unwind(std::panic::AssertUnwindSafe(|| call.eval_with_context(ctx))) {
                Ok(r) => cr(&r),
                Err(_) => format!("PANIC: {}", verifsim::env::last_panic().split(" at ").next().unwrap_or("")),
            };
            let second = match std::panic::catch_unwind(std::panic::AssertUnwindSafe(|| after.eval_with_context(ctx))) {
                Ok(r) => cr(&r),
                Err(_) => format!("PANIC: {}", verifsim::env::last_panic().split(" at ").next().unwrap_or("")),
            };
            format!("{} then {}", first, second)
        },
        TOp::Reload { n } => {
            for _ in 0..*n {
                let current: Arc<Ctx> = sh.published.lock().unwrap().clone();
                let mut next: Ctx = (*current).clone();
                if let Some(v) = current.get_value("a").cloned() {
                    let _ = next.set_value("a".to_string(), v);
                }
                *sh.published.lock().unwrap() = Arc::new(next);
                crate::sched::harness_yield();
            }
            let last: Arc<Ctx> = sh.published.lock().unwrap().clone();
            snapshot(&last)
        },
        TOp::Hammer { tree, n } => {
            let t = match sh.trees.get(*tree) {
                Some(t) => t,
                None => return "no such tree".into(),
            };
            let mut seen: Vec<String> = Vec::new();
            for _ in 0..*n {
                let current: Arc<Ctx> = sh.published.lock().unwrap().clone();
                let r = eval_entry(t, &*current, 0);
                if !seen.contains(&r) {
                    seen.push(r);
                }
            }
            seen.join(" | ")
        },
        TOp::BuildContext { variant } => {
            let ctx = build_variant_context(*variant);
            let s = snapshot(&ctx);
            BUILT.with(|b| b.borrow_mut().push(ctx));
            s
        },
    }
}

/// Evaluates a shared tree from a thread-local destructor, i.e. while its thread is being torn
/// down, and leaves the rendered result in a slot the main thread reads after joining.
pub struct TeardownProbe {
    pub shared: Arc<Shared>,
    pub slot: Arc<std::sync::Mutex<Option<String>>>,
}

impl Drop for TeardownProbe {
    fn drop(&mut self) {
        let r = exec(&TOp::EvalTree { tree: 0, ctx: CtxSel::Main, entry: 0 }, &self.shared);
        if let Ok(mut s) = self.slot.lock() {
            *s = Some(r);
        }
    }
}

thread_local! {
    /// registered before the thread's first evaluation; its destructor evaluates once more
    static TEARDOWN: std::cell::RefCell<Option<TeardownProbe>> = const { std::cell::RefCell::new(None) };
}

thread_local! {
    /// contexts built on this thread by `BuildContext`
    static BUILT: std::cell::RefCell<Vec<Ctx>> = const { std::cell::RefCell::new(Vec::new()) };
}

pub fn take_built() -> Vec<Ctx> {
    BUILT.with(|b| std::mem::take(&mut *b.borrow_mut()))
}

const VARIANT_FNS: [&str; 6] = ["f", "g", "h", "len", "str::from", "max"];

/// Every variant runs the same setup routine (same number of `set_function` calls) but registers
/// a different set of names, so that tables built on different threads differ in content only.
fn build_variant_context(variant: usize) -> Ctx {
    let mut ctx = Ctx::new();
    if variant >= 100 {
        // light flavour: one function only (its registration is the table's last change)
        let name = VARIANT_FNS[variant % VARIANT_FNS.len()];
        let _ = ctx.set_function(
            name.to_string(),
            Function::new(move |arg: &V| Ok(sentinel("k", arg))),
        );
        return ctx;
    }
    for i in 0..3 {
        let name = VARIANT_FNS[(variant + 2 * i) % VARIANT_FNS.len()];
        let behaviour: &'static str = ["k", "g", "f"][i];
        let _ = ctx.set_function(
            name.to_string(),
            Function::new(move |arg: &V| Ok(sentinel(behaviour, arg))),
        );
    }
    let _ = ctx.set_value("a".to_string(), Value::Int(variant as i64));
    ctx
}

/// Orders the contexts built by the threads build-index-major (all first contexts, then all second
/// ones, ...): contexts built at about the same time on different threads become neighbours.
pub fn interleave(per_thread: Vec<Vec<Ctx>>) -> Vec<Ctx> {
    let mut iters: Vec<std::vec::IntoIter<Ctx>> = per_thread.into_iter().map(|v| v.into_iter()).collect();
    let mut out = Vec::new();
    loop {
        let mut any = false;
        for it in iters.iter_mut() {
            if let Some(c) = it.next() {
                out.push(c);
                any = true;
            }
        }
        if !any {
            return out;
        }
    }
}

/// Probes all contexts name-major (the same name on every context in turn, then the next name):
/// function lookups through `call_function` and through a one-call tree.
pub fn probe_contexts(all: &[Ctx]) -> Vec<String> {
    let mut out = Vec::new();
    let arg = Value::Tuple(vec![Value::Int(2), Value::Int(5)]);
    // (under Miri only the names that are builtins as well, plus one that is not)
    let names: Vec<&str> = if cfg!(miri) {
        vec!["len", "str::from", "max", "f"]
    } else {
        VARIANT_FNS.iter().chain(["typeof", "nofn"].iter()).copied().collect()
    };
    for name in names.iter() {
        let tree = verifsim::prog::Expr::Call(
            name.to_string(),
            Some(Box::new(verifsim::prog::Expr::Lit(arg.clone()))),
        )
        .assemble(true);
        for (i, ctx) in all.iter().enumerate() {
            out.push(format!(
                "ctx{} {} call_function={} eval={}",
                i,
                name,
                cr(&ctx.call_function(name, &arg)),
                cr(&tree.eval_with_context(ctx))
            ));
        }
    }
    out
}

pub fn shared_fingerprint(sh: &Shared) -> String {
    let trees: Vec<String> = sh.trees.iter().map(|t| format!("{:?}", t)).collect();
    format!(
        "{} || {} || {} || {:?}",
        trees.join(" ## "),
        snapshot(&sh.ctx_main),
        snapshot(&sh.ctx_nobuiltins),
        sh.values.iter().map(cv).collect::<Vec<_>>()
    )
}

/// Sequential baseline: each thread's list executed alone.
pub fn sequential(w: &Workload, sh: &Shared) -> Vec<Vec<String>> {
    let _ = take_built();
    let r = w
        .threads
        .iter()
        .map(|ops| ops.iter().map(|o| exec(o, sh)).collect())
        .collect();
    let _ = take_built();
    r
}

/// Sequential baseline that also returns the probe results of the contexts built on the way.
pub fn sequential_with_contexts(w: &Workload, sh: &Shared) -> (Vec<Vec<String>>, Vec<String>) {
    let _ = take_built();
    let mut per_thread: Vec<Vec<Ctx>> = Vec::new();
    let mut results = Vec::new();
    for ops in &w.threads {
        results.push(ops.iter().map(|o| exec(o, sh)).collect());
        per_thread.push(take_built());
    }
    let probes = probe_contexts(&interleave(per_thread));
    (results, probes)
}

#[derive(Clone, Debug, PartialEq)]
pub struct CFinding {
    pub class: String,
    pub thread: usize,
    pub op: usize,
    pub expected: String,
    pub actual: String,
}

pub struct RunOutcome {
    pub finding: Option<CFinding>,
    pub report: SimReport,
}

// ------------------------------------------------------------------------------ early bird
//
// A long-lived thread that is started before anything else in the process touches the library
// (a thread pool created at start-up): it evaluates a few expressions against an empty
// `HashMapContext` while no user function exists anywhere in the process yet, then waits for
// jobs. Later, objects built on the main thread are shared with it; what it computes must be
// what every other thread computes (per-thread snapshots of process-wide facts go stale here).

type Job = Box<dyn FnOnce() + Send>;

pub struct EarlyBird {
    tx: std::sync::mpsc::Sender<Job>,
    handle: std::thread::JoinHandle<()>,
}

impl EarlyBird {
    pub fn start() -> EarlyBird {
        let (tx, rx) = std::sync::mpsc::channel::<Job>();
        let (ready_tx, ready_rx) = std::sync::mpsc::channel::<()>();
        let handle = std::thread::Builder::new()
            .name("early-bird".into())
            .stack_size(if cfg!(miri) { 1 << 20 } else { 32 << 20 })
            .spawn(move || {
                let ctx = Ctx::new();
                let _ = evalexpr::eval_with_context("f(1) + a", &ctx);
                let _ = evalexpr::eval_with_context("len(\"ab\") + max(1, 2)", &ctx);
                let _ = evalexpr::eval("1 + 2 * 3");
                let _ = build_operator_tree::<DefaultNumericTypes>("x = 1; y(2)");
                let _ = ready_tx.send(());
                for job in rx {
                    job();
                }
            })
            .expect("spawn early bird");
        let _ = ready_rx.recv();
        EarlyBird { tx, handle }
    }

    /// Runs `f` on the early bird and waits for its result.
    pub fn run<T: Send + 'static>(&self, f: impl FnOnce() -> T + Send + 'static) -> Option<T> {
        let (rtx, rrx) = std::sync::mpsc::channel();
        self.tx
            .send(Box::new(move || {
                let _ = rtx.send(f());
            }))
            .ok()?;
        rrx.recv().ok()
    }

    pub fn shutdown(self) {
        drop(self.tx);
        let _ = self.handle.join();
    }
}

static EARLY_BIRD: std::sync::OnceLock<std::sync::Mutex<EarlyBird>> = std::sync::OnceLock::new();

/// Must be the first thing the process does with the library.
pub fn start_process_early_bird() {
    let _ = EARLY_BIRD.set(std::sync::Mutex::new(EarlyBird::start()));
}

fn on_early_bird(ops: Vec<TOp>, sh: Arc<Shared>) -> Option<Vec<String>> {
    let bird = EARLY_BIRD.get()?.lock().ok()?;
    bird.run(move || {
        let _ = take_built();
        let r = ops.iter().map(|o| exec(o, &sh)).collect::<Vec<String>>();
        let _ = take_built();
        r
    })
}

/// One complete simulation of a workload under a scheduler configuration.
static CANARY_PARSED_BEFORE: std::sync::atomic::AtomicBool = std::sync::atomic::AtomicBool::new(false);
const CANARY_SOURCE: &str = "1 + a * 2";

pub fn run(w: &Workload, cfg: sched::SimConfig) -> Result<RunOutcome, String> {
    // the same small source is built on the main thread before every simulation: if that stops
    // working after it worked (trees built here are dropped on other threads all the time), the
    // builder depends on what other threads did
    match build_operator_tree::<DefaultNumericTypes>(CANARY_SOURCE) {
        Ok(_) => CANARY_PARSED_BEFORE.store(true, std::sync::atomic::Ordering::Relaxed),
        Err(e) => {
            if CANARY_PARSED_BEFORE.load(std::sync::atomic::Ordering::Relaxed) {
                return Ok(RunOutcome {
                    finding: Some(CFinding {
                        class: "tree-build-depends-on-process-history".into(),
                        thread: 0,
                        op: 0,
                        expected: format!("build_operator_tree({:?}) succeeds on the main thread, as it did before", CANARY_SOURCE),
                        actual: format!("Err({})", ce(&e)),
                    }),
                    report: SimReport::default(),
                });
            }
        },
    }
    let sh = Arc::new(build_shared(w)?);
    // trees built (cloned) on this thread and handed to a simulated thread, which drops them
    let mut disposable: Option<Vec<Node>> = Some(sh.trees.clone());
    let cold = w.fresh && w.cold;
    let reference = if w.fresh { Some(build_shared(w)?) } else { None };
    let (mut expected, mut expected_probes) = if cold {
        (Vec::new(), Vec::new())
    } else {
        sequential_with_contexts(w, reference.as_ref().unwrap_or(&sh))
    };
    let built: Arc<Vec<std::sync::Mutex<Vec<Ctx>>>> =
        Arc::new((0..w.threads.len()).map(|_| std::sync::Mutex::new(Vec::new())).collect());
    let before = shared_fingerprint(&sh);
    let n = w.threads.len();
    let results: Vec<std::sync::Mutex<Vec<String>>> = (0..n).map(|_| std::sync::Mutex::new(Vec::new())).collect();
    let results = Arc::new(results);
    let teardown_slots: Vec<Arc<std::sync::Mutex<Option<String>>>> =
        (0..n).map(|_| Arc::new(std::sync::Mutex::new(None))).collect();
    let mut bodies: Vec<Box<dyn FnOnce() + Send>> = Vec::new();
    for (i, ops) in w.threads.iter().enumerate() {
        let sh = sh.clone();
        let ops = ops.clone();
        let results = results.clone();
        let built = built.clone();
        let slot = teardown_slots[i].clone();
        let handed_over = if i == 0 { disposable.take() } else { None };
        bodies.push(Box::new(move || {
            drop(handed_over);
            // registered before this thread evaluates anything: thread-local destructors run in
            // reverse registration order, so the probe's evaluation happens after the library's
            // own thread-locals (if it has any) are gone
            TEARDOWN.with(|t| {
                *t.borrow_mut() = Some(TeardownProbe {
                    shared: sh.clone(),
                    slot,
                })
            });
            let _ = take_built();
            for op in &ops {
                let r = exec(op, &sh);
                results[i].lock().unwrap().push(r);
            }
            // hand the contexts built on this thread over to the main thread
            *built[i].lock().unwrap() = take_built();
        }));
    }
    let report = sched::simulate(cfg, bodies);
    if cold && !report.deadlock {
        // baseline after the concurrent phase, on the independently built copy
        let (e, p) = sequential_with_contexts(w, reference.as_ref().unwrap_or(&sh));
        expected = e;
        expected_probes = p;
    }
    let mut finding = None;
    if let Some((t, msg)) = report.panics.first() {
        let done = results[*t].lock().unwrap().len();
        finding = Some(CFinding {
            class: "panic".into(),
            thread: *t,
            op: done,
            expected: expected.get(*t).and_then(|e| e.get(done)).cloned().unwrap_or_default(),
            actual: format!("PANIC: {}", msg),
        });
    }
    if finding.is_none() && report.deadlock {
        finding = Some(CFinding {
            class: "deadlock".into(),
            thread: 0,
            op: 0,
            expected: "every thread obtains the result of the sequential evaluation".into(),
            actual: format!(
                "all live threads are stuck in primitives of the library and nothing moved for {} s",
                sched::WATCHDOG_S
            ),
        });
        return Ok(RunOutcome { finding, report });
    }
    if finding.is_none() {
        if let Some(t) = report.no_progress {
            finding = Some(CFinding {
                class: "no-progress".into(),
                thread: t,
                op: 0,
                expected: format!("thread finishes within {} scheduler steps", sched::STEP_CAP),
                actual: "step cap exceeded".into(),
            });
        }
    }
    if finding.is_none() {
        'outer: for t in 0..n {
            let got = results[t].lock().unwrap();
            for (k, e) in expected[t].iter().enumerate() {
                let a = got.get(k).cloned().unwrap_or_else(|| "<missing>".into());
                if *e != a {
                    finding = Some(CFinding {
                        class: "concurrent!=sequential".into(),
                        thread: t,
                        op: k,
                        expected: e.clone(),
                        actual: a,
                    });
                    break 'outer;
                }
            }
        }
    }
    if finding.is_none() && !report.deadlock {
        // evaluations made while the threads were torn down (thread-local destructors)
        // (a panic's message is not available to a thread that is being torn down - the
        // harness keeps it in a thread-local: panics compare by the fact alone)
        let without_message = |s: String| if s.starts_with("PANIC:") { "PANIC".to_string() } else { s };
        let expected_teardown =
            without_message(exec(&TOp::EvalTree { tree: 0, ctx: CtxSel::Main, entry: 0 }, &sh));
        for (t, slot) in teardown_slots.iter().enumerate() {
            let got = slot.lock().unwrap().clone();
            if let Some(got) = got.map(without_message) {
                if got != expected_teardown {
                    finding = Some(CFinding {
                        class: "evaluation-during-thread-teardown-differs".into(),
                        thread: t,
                        op: 0,
                        expected: expected_teardown.clone(),
                        actual: got,
                    });
                    break;
                }
            }
        }
    }
    if finding.is_none() && w.early && !w.threads.is_empty() {
        // the first thread's operations once more, alone, on the thread that was warm before
        // anything else in the process existed
        if let Some(got) = on_early_bird(w.threads[0].clone(), sh.clone()) {
            for (k, e) in expected[0].iter().enumerate() {
                let a = got.get(k).cloned().unwrap_or_else(|| "<missing>".into());
                if *e != a {
                    finding = Some(CFinding {
                        class: "long-lived-thread-differs".into(),
                        thread: 0,
                        op: k,
                        expected: e.clone(),
                        actual: a,
                    });
                    break;
                }
            }
        }
    }
    if finding.is_none() {
        // contexts built on the simulated threads, moved to the main thread, probed name-major
        let per_thread: Vec<Vec<Ctx>> = built
            .iter()
            .map(|b| std::mem::take(&mut *b.lock().unwrap()))
            .collect();
        let probes = probe_contexts(&interleave(per_thread));
        if probes != expected_probes {
            let (k, e, a) = expected_probes
                .iter()
                .zip(probes.iter())
                .enumerate()
                .find(|(_, (e, a))| e != a)
                .map(|(k, (e, a))| (k, e.clone(), a.clone()))
                .unwrap_or((0, format!("{} probes", expected_probes.len()), format!("{} probes", probes.len())));
            finding = Some(CFinding {
                class: "contexts-built-on-other-threads-differ".into(),
                thread: 0,
                op: k,
                expected: e,
                actual: a,
            });
        }
    }
    if finding.is_none() {
        let after = shared_fingerprint(&sh);
        if after != before {
            finding = Some(CFinding {
                class: "shared-object-changed".into(),
                thread: 0,
                op: 0,
                expected: before.clone(),
                actual: after,
            });
        }
    }
    if finding.is_none() {
        // nothing was poisoned: a second sequential pass still gives the same results
        let again = sequential(w, &sh);
        for t in 0..n {
            for k in 0..expected[t].len() {
                if expected[t][k] != again[t][k] {
                    finding = Some(CFinding {
                        class: "sequential-after-concurrent-differs".into(),
                        thread: t,
                        op: k,
                        expected: expected[t][k].clone(),
                        actual: again[t][k].clone(),
                    });
                }
            }
        }
    }
    Ok(RunOutcome { finding, report })
}

// ------------------------------------------------------------------------------ generation

fn gen_tree(rng: &mut Rng, setup: &Setup, deep: bool, with_assign: bool) -> Expr {
    let cfg = GenCfg {
        budget: if deep { rng.range(25, 70) } else { *rng.pick(&[3usize, 6, 12, 20]) },
        max_depth: if deep { rng.range(20, 60) } else { rng.range(2, 7) },
        well_typed_pct: *rng.pick(&[85, 95, 100]),
        fail_leaf_pct: *rng.pick(&[0, 0, 2, 6]),
        builtins: true,
        spiny: deep,
        max_statements: if with_assign { 3 } else { 1 },
        assign_pct: if with_assign { 60 } else { 0 },
        nested_statements: with_assign,
    };
    let mut g = Gen::new(rng, cfg, setup);
    g.program()
}

/// Hand-built workload families for the Miri engine (cheap to construct under an interpreter,
/// dense in the operations where unsynchronised shared state would matter).
pub fn miri_workload(seed: u64) -> Workload {
    let mut rng = Rng::new(seed);
    let family = seed % 4;
    let setup = Setup {
        vars: vec![
            ("a".to_string(), Value::Int(3)),
            ("b".to_string(), Value::Int(8)),
            ("c".to_string(), Value::String("xyz".into())),
        ],
        fns: FN_NAMES.iter().map(|s| s.to_string()).collect(),
        builtins_disabled: false,
        aging: 0,
    };
    let mut w = Workload {
        trees: vec![],
        assembled: vec![],
        sources: vec![],
        scripts: vec![],
        setup,
        values: vec![Value::Int(1)],
        threads: vec![],
        extra_tree_sources: vec![],
        fresh: true,
        cold: false,
            early: false,
    };
    let n_threads = rng.range(2, 3);
    match family {
        0 => {
            // generator-based small workload
            let mut g = gen_workload_sized(&mut rng, true);
            g.threads.truncate(3);
            for t in g.threads.iter_mut() {
                t.truncate(3);
            }
            return g;
        },
        1 => {
            // builtin-dense: several distinct builtins resolved by all threads at the same time,
            // against a shared HashMapContext and the shared EmptyContextWithBuiltinFunctions
            w.extra_tree_sources = vec![
                "min(a, b) * 100 + max(a, b)".to_string(),
                "len(c) + math::abs(0 - a) + floor(2.5) + round(2.4) + ceil(0.1)".to_string(),
                "typeof(str::from(a)) + str::to_uppercase(c) + str::trim(\" q \")".to_string(),
                "min(3, 8) * 100 + max(3, 8) + len(\"ab\") + if(true, 1, 2)".to_string(),
                "q(1)".to_string(),
            ];
            for t in 0..n_threads {
                let mut ops = Vec::new();
                if t == 0 {
                    // one thread keeps calling the not-found dispatcher while the others resolve builtins
                    for _ in 0..3 {
                        ops.push(TOp::EvalTree { tree: 4, ctx: CtxSel::Main, entry: 0 });
                    }
                }
                for k in 0..4 {
                    let tree = (t + k) % 4;
                    let ctx = if tree == 3 && rng.percent(50) { CtxSel::EmptyBuiltins } else { CtxSel::Main };
                    ops.push(TOp::EvalTree { tree, ctx, entry: 0 });
                }
                w.threads.push(ops);
            }
            // a burst of threads whose first (and only) evaluation happens at the same time:
            // per-thread state registered lazily in a process-wide table
            for k in 0..14 {
                w.threads.push(vec![TOp::EvalTree { tree: k % 4, ctx: CtxSel::Main, entry: 0 }]);
            }
        },
        2 => {
            // first concurrent use of fresh trees with constant sub-expressions; parse + evaluate
            w.setup.vars.push((
                "s".to_string(),
                Value::String("0123456789012345678901234567890123456789".into()),
            ));
            w.extra_tree_sources = vec![
                "(1 + 2) * (3 + 4) + a".to_string(),
                // long strings (80+ bytes after concatenation)
                "(s + s) + c + (\"p\" + s)".to_string(),
                // numerically equal int and float arguments to type-sensitive functions
                "(g(1), g(1.0), k(2), k(2.0), r(3), g(1.0))".to_string(),
            ];
            w.sources = vec!["(1 + 2) * (3 + 4) + a".to_string(), "a + b * 2 - len(c)".to_string()];
            for t in 0..n_threads {
                // all threads start on the same fresh tree at the same time, against two contexts
                let (c1, c2) = if t % 2 == 0 {
                    (CtxSel::Main, CtxSel::NoBuiltins)
                } else {
                    (CtxSel::NoBuiltins, CtxSel::Main)
                };
                let mut ops = vec![TOp::EvalTree { tree: 1, ctx: c1, entry: 0 }];
                ops.push(TOp::EvalTree { tree: 1, ctx: c2, entry: 0 });
                ops.push(TOp::EvalTree { tree: 1, ctx: c1, entry: 0 });
                ops.push(TOp::EvalTree { tree: 1, ctx: c2, entry: 0 });
                ops.push(TOp::EvalTree { tree: 0, ctx: CtxSel::Main, entry: 0 });
                ops.push(TOp::EvalTree { tree: 1 + (t % 2), ctx: CtxSel::Main, entry: 0 });
                ops.push(if t % 2 == 0 { TOp::EvalStr { src: 0, ctx: CtxSel::Main } } else { TOp::Iter { tree: 2 } });
                ops.push(TOp::EvalTree { tree: 0, ctx: CtxSel::NoBuiltins, entry: 1 });
                ops.push(TOp::EvalTree { tree: 2 - (t % 2), ctx: CtxSel::Main, entry: 0 });
                w.threads.push(ops);
            }
        },
        _ => {
            // contexts: clones mutated privately while others read the shared original
            w.extra_tree_sources = vec!["a + b".to_string(), "len(c) + a".to_string()];
            w.scripts = vec![
                Expr::Assign(crate::c15::AOP_ASSIGN, "a".to_string(), Box::new(Expr::Lit(Value::Int(5)))),
                Expr::Assign(crate::c15::AOP_ADD, "b".to_string(), Box::new(Expr::Read("a".to_string()))),
                Expr::Read("b".to_string()),
            ];
            for t in 0..n_threads {
                let mut ops = Vec::new();
                // every thread builds contexts first (same setup routine, different tables): after
                // the run they are all probed on the main thread
                for k in 0..6 {
                    ops.push(TOp::BuildContext { variant: 100 + t + k });
                }
                ops.push(TOp::BuildContext { variant: t });
                ops.push(TOp::BuildContext { variant: t + 3 });
                if t % 2 == 0 {
                    ops.push(TOp::PrivateScript { programs: vec![0, 1, 2] });
                    ops.push(TOp::Panicky { arg: 13 });
                    ops.push(TOp::FreshScript { programs: vec![0, 2] });
                } else {
                    ops.push(TOp::EvalTree { tree: 0, ctx: CtxSel::Main, entry: 0 });
                    ops.push(TOp::Panicky { arg: 14 });
                    ops.push(TOp::EvalTree { tree: 1, ctx: CtxSel::Main, entry: 0 });
                }
                w.threads.push(ops);
            }
        },
    }
    w
}

pub const AOP_ASSIGN: verifsim::prog::AOp = verifsim::prog::AOp::Assign;
pub const AOP_ADD: verifsim::prog::AOp = verifsim::prog::AOp::Add;

/// Scenario for the Miri engine: plain `std::thread`, no hook installed; Miri's own seeded
/// scheduler preempts at basic-block granularity and owns std locks and atomics. The sequential
/// baseline is computed on an independently built copy, so the shared objects meet their first
/// use concurrently. Returns the process exit code.
pub fn miri_scenario(seed: u64) -> i32 {
    // a thread that used the library before anything was built (see `EarlyBird`) - in the even
    // families only: its warm-up is the library's first use in the process, and the odd families
    // are the ones whose first use must be the concurrent phase itself
    let bird = if seed % 2 == 0 { Some(EarlyBird::start()) } else { None };
    let w = miri_workload(seed);
    let reference = match build_shared(&w) {
        Ok(s) => s,
        Err(e) => {
            println!("miri-scenario: workload does not build: {}", e);
            return 0;
        },
    };
    // Every Miri run is a fresh (interpreted) process. In the odd families the concurrent phase
    // comes FIRST, so that the library's very first use in the process is the concurrent one
    // (lazily initialised process-global state); the sequential baseline is computed afterwards
    // on the independent copy.
    let cold_first = seed % 2 == 1;
    let (mut expected, mut expected_probes) = if cold_first {
        (Vec::new(), Vec::new())
    } else {
        sequential_with_contexts(&w, &reference)
    };
    let sh = match build_shared(&w) {
        Ok(s) => Arc::new(s),
        Err(_) => return 0,
    };
    let mut results: Vec<Vec<String>> = Vec::new();
    let mut built: Vec<Vec<Ctx>> = Vec::new();
    // start line: every thread is spawned first, then all are released at once
    let go = std::sync::atomic::AtomicBool::new(false);
    let go = &go;
    std::thread::scope(|scope| {
        let mut handles = Vec::new();
        for ops in w.threads.iter() {
            let sh = sh.clone();
            handles.push(scope.spawn(move || {
                while !go.load(std::sync::atomic::Ordering::Acquire) {
                    std::thread::yield_now();
                }
                let _ = take_built();
                let r = ops.iter().map(|o| exec(o, &sh)).collect::<Vec<String>>();
                (r, take_built())
            }));
        }
        go.store(true, std::sync::atomic::Ordering::Release);
        for h in handles {
            match h.join() {
                Ok((r, b)) => {
                    results.push(r);
                    built.push(b);
                },
                Err(_) => {
                    results.push(vec!["PANIC".to_string()]);
                    built.push(Vec::new());
                },
            }
        }
    });
    let probes = probe_contexts(&interleave(built));
    if cold_first {
        let (e, p) = sequential_with_contexts(&w, &reference);
        expected = e;
        expected_probes = p;
    }
    let on_bird = match bird {
        Some(bird) => {
            let ops = w.threads.first().cloned().unwrap_or_default();
            let sh = sh.clone();
            let r = bird.run(move || {
                let _ = take_built();
                let r = ops.iter().map(|o| exec(o, &sh)).collect::<Vec<String>>();
                let _ = take_built();
                r
            });
            bird.shutdown();
            r
        },
        None => None,
    };
    if let (Some(got), Some(exp)) = (on_bird, expected.first()) {
        if let Some(k) = (0..exp.len()).find(|k| got.get(*k) != Some(&exp[*k])) {
            println!(
                "VIOLATION property=C15 class=long-lived-thread-differs engine=miri workload_seed={} family={} thread=0 op={} expected={} actual={:?}",
                seed, seed % 4, k, exp[k], got.get(k)
            );
            return 1;
        }
    }
    if probes != expected_probes {
        let k = probes.iter().zip(expected_probes.iter()).position(|(a, b)| a != b).unwrap_or(0);
        println!(
            "VIOLATION property=C15 class=contexts-built-on-other-threads-differ engine=miri workload_seed={} family={} expected={:?} actual={:?}",
            seed, seed % 4, expected_probes.get(k), probes.get(k)
        );
        return 1;
    }
    for t in 0..w.threads.len() {
        for k in 0..expected[t].len() {
            if results[t].get(k) != Some(&expected[t][k]) {
                println!(
                    "VIOLATION property=C15 class=concurrent!=sequential engine=miri workload_seed={} family={} thread={} op={} operation={} expected={} actual={:?}",
                    seed, seed % 4, t, k, w.threads[t][k].to_json().to_compact(), expected[t][k], results[t].get(k)
                );
                return 1;
            }
        }
    }
    // shared objects unchanged (kept cheap: this runs under an interpreter): trees by `==`
    // against the independently built reference copy, contexts by their sorted snapshots
    if sh.trees != reference.trees
        || snapshot(&sh.ctx_main) != snapshot(&reference.ctx_main)
        || snapshot(&sh.ctx_nobuiltins) != snapshot(&reference.ctx_nobuiltins)
    {
        println!("VIOLATION property=C15 class=shared-object-changed engine=miri workload_seed={}", seed);
        return 1;
    }
    if seed % 4 == 2 {
        // nothing was poisoned by the first, concurrent use
        let again = sequential(&w, &sh);
        if again != expected {
            println!("VIOLATION property=C15 class=sequential-after-concurrent-differs engine=miri workload_seed={}", seed);
            return 1;
        }
    }
    println!(
        "miri-scenario: ok workload_seed={} family={} threads={} ops={}",
        seed,
        seed % 4,
        w.threads.len(),
        w.threads.iter().map(|t| t.len()).sum::<usize>()
    );
    0
}

fn gen_very_deep_tree(rng: &mut Rng, setup: &Setup) -> Expr {
    // (a third of them beyond a thousand levels once the parenthesis wrappers are counted)
    let depth = if rng.percent(30) { rng.range(550, 700) } else { rng.range(150, 320) };
    let cfg = GenCfg {
        budget: depth * 5 / 2 + rng.range(5, 30),
        max_depth: depth,
        well_typed_pct: 100,
        fail_leaf_pct: 0,
        builtins: false,
        spiny: true,
        max_statements: 1,
        assign_pct: 0,
        nested_statements: false,
    };
    let mut g = Gen::new(rng, cfg, setup);
    g.program()
}

pub fn gen_workload(rng: &mut Rng) -> Workload {
    gen_workload_sized(rng, false)
}

pub fn gen_workload_sized(rng: &mut Rng, small: bool) -> Workload {
    let mut setup = gen_setup(rng);
    setup.fns = FN_NAMES.iter().map(|s| s.to_string()).collect();
    let n_trees = if small { 2 } else { rng.range(3, 6) };
    // swarm: a few runs use very deep trees and many threads (state that sums over all
    // evaluations in flight, e.g. a process-wide depth budget, needs depth x threads to show)
    let very_deep = !small && rng.percent(10);
    let many_threads = !small && rng.percent(10);
    let mut trees = Vec::new();
    let mut assembled = Vec::new();
    for i in 0..n_trees {
        let deep = !small && (i == 0 || rng.percent(30));
        let with_assign = rng.percent(20);
        if very_deep && i == 0 {
            trees.push(gen_very_deep_tree(rng, &setup));
        } else {
            trees.push(gen_tree(rng, &setup, deep, with_assign));
        }
        assembled.push(rng.percent(50));
    }
    let mut sources = Vec::new();
    for _ in 0..rng.range(2, 4) {
        let mut tries = 0;
        loop {
            let deep = !small && rng.percent(20);
            let t = gen_tree(rng, &setup, deep, false);
            tries += 1;
            if t.is_renderable() || tries > 8 {
                sources.push(if t.is_renderable() { t.render() } else { "1 + a".to_string() });
                break;
            }
        }
    }
    if rng.percent(15) {
        sources.push("q(1) + len(\"ab\")".to_string());
    }
    if rng.percent(40) {
        // a function name nobody has ever seen before (registries keyed by name get a new entry)
        sources.push(format!("u{:012x}(1) + 1", rng.next_u64() & 0xffff_ffff_ffff));
    }
    let mut scripts = Vec::new();
    for _ in 0..rng.range(2, 5) {
        let deep = !small && rng.percent(20);
        scripts.push(gen_tree(rng, &setup, deep, true));
    }
    let values: Vec<V> = (0..rng.range(1, 4)).map(|_| any_value(rng)).collect();
    // rarely: more threads than twice the number of cores, each inside a user function that
    // evaluates an expression of its own (`r`): counted resources held across nested evaluations
    if !small && rng.percent(1) {
        let cores = std::thread::available_parallelism().map(|n| n.get()).unwrap_or(8);
        // (at least 72: limits on calls in flight tend to be powers of two up to 64)
        let crowd = (2 * cores + 4).max(72);
        let nested = Expr::Call(
            "r".to_string(),
            Some(Box::new(Expr::Call(
                "r".to_string(),
                Some(Box::new(Expr::Lit(Value::Int(3)))),
            ))),
        );
        let mut trees = trees;
        let idx = trees.len();
        trees.push(nested);
        let mut assembled = assembled;
        assembled.push(true);
        return Workload {
            trees,
            assembled,
            sources,
            scripts,
            setup,
            values,
            threads: (0..crowd)
                .map(|_| vec![TOp::EvalTree { tree: idx, ctx: CtxSel::Main, entry: 0 }])
                .collect(),
            extra_tree_sources: Vec::new(),
            fresh: false,
            cold: false,
            early: false,
        };
    }
    // rarely: hot reload under load - one thread clones and republishes the shared context many
    // times while the others keep evaluating (inside user functions) against whatever is published
    if !small && rng.percent(1) {
        let nested = Expr::Call(
            "r".to_string(),
            Some(Box::new(Expr::Call("g".to_string(), Some(Box::new(Expr::Lit(Value::Int(3))))))),
        );
        let mut trees = trees;
        let idx = trees.len();
        trees.push(nested);
        let mut assembled = assembled;
        assembled.push(true);
        let mut threads = vec![vec![TOp::Reload { n: rng.range(1200, 2000) as usize }]];
        for _ in 0..rng.range(2, 3) {
            threads.push(vec![TOp::Hammer { tree: idx, n: rng.range(800, 1400) as usize }]);
        }
        return Workload {
            trees,
            assembled,
            sources,
            scripts,
            setup,
            values,
            threads,
            extra_tree_sources: Vec::new(),
            fresh: false,
            cold: false,
            early: false,
        };
    }
    // rarely: big values - a shared string variable of 0.6-1.8 MB concatenated four times by
    // several threads at once (resource accounting by bytes, e.g. a budget or a pool that sums
    // over all evaluations in flight, needs size x threads to show; every other workload uses
    // values of a few bytes)
    if !small && rng.percent(1) {
        let len = rng.range(600_000, 1_800_000) as usize;
        let mut setup = setup;
        setup.vars.push(("big".to_string(), Value::String("x".repeat(len))));
        let idx = trees.len();
        let n = rng.range(3, 6);
        return Workload {
            trees,
            assembled,
            sources,
            scripts,
            setup,
            values,
            threads: (0..n)
                .map(|_| {
                    vec![
                        TOp::EvalTree { tree: idx, ctx: CtxSel::Main, entry: 0 },
                        TOp::EvalTree { tree: idx + 1, ctx: CtxSel::Main, entry: 0 },
                    ]
                })
                .collect(),
            extra_tree_sources: vec![
                "len(big + big + big + big)".to_string(),
                "len(big + big + big + big) + r(1)".to_string(),
            ],
            fresh: false,
            cold: false,
            early: false,
        };
    }
    let n_threads = if many_threads { rng.range(5, 8) } else { rng.range(2, 4) };
    let mut threads = Vec::new();
    for _ in 0..n_threads {
        let n_ops = rng.range(2, 6);
        let mut ops = Vec::new();
        for _ in 0..n_ops {
            let ctx = match rng.below(10) {
                0..=5 => CtxSel::Main,
                6 | 7 => CtxSel::NoBuiltins,
                8 => CtxSel::Empty,
                _ => CtxSel::EmptyBuiltins,
            };
            let pick_programs = |rng: &mut Rng| -> Vec<usize> {
                (0..rng.range(1, 3)).map(|_| rng.usize_below(scripts.len())).collect()
            };
            let op = match rng.below(20) {
                0..=8 => TOp::EvalTree {
                    tree: if very_deep && rng.percent(70) { 0 } else { rng.usize_below(n_trees) },
                    ctx,
                    entry: if rng.percent(60) { 0 } else { rng.usize_below(TYPED_ENTRIES.len()) },
                },
                9 | 10 => TOp::EvalStr { src: rng.usize_below(sources.len()), ctx },
                11 => TOp::Build { src: rng.usize_below(sources.len()) },
                12 => TOp::Iter { tree: rng.usize_below(n_trees) },
                13 => TOp::Render { tree: rng.usize_below(n_trees) },
                14 | 15 => TOp::PrivateScript { programs: pick_programs(rng) },
                16 | 17 => TOp::FreshScript { programs: pick_programs(rng) },
                18 => TOp::CloneRename { tree: rng.usize_below(n_trees) },
                _ => {
                    match rng.below(5) {
                        0 | 1 => TOp::EvalImplicit { tree: rng.usize_below(n_trees) },
                        2 | 3 => TOp::BuildContext {
                            variant: if rng.percent(50) { rng.usize_below(6) } else { 100 + rng.usize_below(6) },
                        },
                        _ => TOp::Panicky { arg: *rng.pick(&[13i64, 14, 13, 2]) },
                    }
                },
            };
            ops.push(op);
        }
        threads.push(ops);
    }
    let fresh = rng.percent(50);
    Workload {
        trees,
        assembled,
        sources,
        scripts,
        setup,
        values,
        threads,
        extra_tree_sources: Vec::new(),
        fresh,
        cold: fresh && rng.percent(50),
        early: rng.percent(15),
    }
}

// ------------------------------------------------------------------------------ shrinking

pub fn shrink_workload(w: &Workload) -> Vec<Workload> {
    let mut out = Vec::new();
    // drop a thread (keep at least one)
    if w.threads.len() > 1 {
        for i in 0..w.threads.len() {
            let mut c = w.clone();
            c.threads.remove(i);
            out.push(c);
        }
    }
    // drop an operation
    for t in 0..w.threads.len() {
        for k in 0..w.threads[t].len() {
            if w.threads[t].len() > 1 || w.threads.len() > 1 {
                let mut c = w.clone();
                c.threads[t].remove(k);
                if c.threads[t].is_empty() && c.threads.len() > 1 {
                    c.threads.remove(t);
                }
                out.push(c);
            }
        }
    }
    // simplify trees / scripts in place (indices stay valid)
    for i in 0..w.trees.len() {
        for cand in w.trees[i].shrink_candidates().into_iter().take(40) {
            let mut c = w.clone();
            c.trees[i] = cand;
            out.push(c);
        }
    }
    for i in 0..w.scripts.len() {
        for cand in w.scripts[i].shrink_candidates().into_iter().take(40) {
            let mut c = w.clone();
            c.scripts[i] = cand;
            out.push(c);
        }
    }
    for i in 0..w.sources.len() {
        if w.sources[i] != "1" {
            let mut c = w.clone();
            c.sources[i] = "1".to_string();
            out.push(c);
        }
    }
    // fewer repetitions
    for t in 0..w.threads.len() {
        for k in 0..w.threads[t].len() {
            let smaller = match &w.threads[t][k] {
                TOp::Reload { n } if *n > 1 => Some(TOp::Reload { n: n / 2 }),
                TOp::Hammer { tree, n } if *n > 1 => Some(TOp::Hammer { tree: *tree, n: n / 2 }),
                _ => None,
            };
            if let Some(op) = smaller {
                let mut c = w.clone();
                c.threads[t][k] = op;
                out.push(c);
            }
        }
    }
    // shorten script lists
    for t in 0..w.threads.len() {
        for k in 0..w.threads[t].len() {
            match &w.threads[t][k] {
                TOp::PrivateScript { programs } | TOp::FreshScript { programs } if programs.len() > 1 => {
                    for d in 0..programs.len() {
                        let mut p = programs.clone();
                        p.remove(d);
                        let mut c = w.clone();
                        c.threads[t][k] = match &w.threads[t][k] {
                            TOp::PrivateScript { .. } => TOp::PrivateScript { programs: p },
                            _ => TOp::FreshScript { programs: p },
                        };
                        out.push(c);
                    }
                },
                _ => {},
            }
        }
    }
    for i in 0..w.setup.vars.len() {
        let mut c = w.clone();
        c.setup.vars.remove(i);
        out.push(c);
    }
    if !w.values.is_empty() {
        let mut c = w.clone();
        c.values.clear();
        out.push(c);
    }
    out
}
