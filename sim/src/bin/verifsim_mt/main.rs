//! CLI of the threaded engines (C15; threaded part of C04).
//!
//!   verifsim_mt check C15 <quick|thorough> [--probe ok]
//!   verifsim_mt worker <C15|C04> <part> --batch-seed S --runs N --stride K --offset W --out FILE
//!   verifsim_mt replay <file>
//!   verifsim_mt minimise <in> <out>
//!   verifsim_mt selftest <runs>          (determinism of the scheduler engine)
//!   verifsim_mt miri-scenario <seed>     (plain std threads, no hooks; run under Miri)

mod c04mt;
mod c15;
mod sched;

use std::path::{Path, PathBuf};
use verifsim::driver::{
    self, batch_seed_from_env, default_workers, handle_violations, harness_error, run_batch,
    run_seed, Args, BatchSpec, Evidence, WorkerOut,
};
use verifsim::json::Json;
use verifsim::rng::{stream, Fnv, STREAM_SCHEDULE, STREAM_WORKLOAD};

fn sites_to_json(mask: u32) -> Json {
    Json::arr_of_str((0..sched::N_SITES).filter(|i| mask & (1 << i) != 0).map(sched::site_name))
}

fn sites_from_json(j: &Json) -> u32 {
    let mut m = 0u32;
    if let Some(a) = j.as_arr() {
        for s in a {
            if let Some(name) = s.as_str() {
                for i in 0..sched::N_SITES {
                    if sched::site_name(i) == name {
                        m |= 1 << i;
                    }
                }
            }
        }
    }
    m
}

fn c15_signature(w: &c15::Workload, f: &c15::CFinding) -> String {
    let op = w
        .threads
        .get(f.thread)
        .and_then(|t| t.get(f.op))
        .map(|o| o.to_json().to_compact())
        .unwrap_or_default();
    format!("{}|{}|trees={:?}", f.class, op, w.trees.iter().map(|t| t.render()).collect::<Vec<_>>())
}

#[allow(clippy::too_many_arguments)]
fn c15_replay_body(
    w: &c15::Workload,
    f: &c15::CFinding,
    schedule: &[u16],
    strategy: &str,
    enabled_sites: u32,
    batch_seed: u64,
    run_index: u64,
    seed: u64,
) -> Json {
    Json::obj()
        .with("property", Json::s("C15"))
        .with("engine", Json::s("hooks"))
        .with("class", Json::s(f.class.clone()))
        .with("batch_seed", Json::u(batch_seed))
        .with("run_index", Json::u(run_index))
        .with("run_seed", Json::u(seed))
        .with(
            "config",
            Json::obj()
                .with("threads", Json::u(w.threads.len() as u64))
                .with("strategy", Json::s(strategy))
                .with("enabled_sites", sites_to_json(enabled_sites)),
        )
        .with("failing_thread", Json::u(f.thread as u64))
        .with("failing_op", Json::u(f.op as u64))
        .with("workload", w.to_json())
        .with("schedule", Json::Arr(schedule.iter().map(|c| Json::u(*c as u64)).collect()))
        .with("expected", Json::s(f.expected.clone()))
        .with("actual", Json::s(f.actual.clone()))
        .with("signature", Json::s(c15_signature(w, f)))
        .with(
            "summary",
            Json::s(format!(
                "{}: thread {} op {} ({}): sequential result {} but concurrent result {} [{} threads, schedule of {} choices]",
                f.class,
                f.thread,
                f.op,
                w.threads.get(f.thread).and_then(|t| t.get(f.op)).map(|o| o.to_json().to_compact()).unwrap_or_default(),
                truncate(&f.expected, 300),
                truncate(&f.actual, 300),
                w.threads.len(),
                schedule.len()
            )),
        )
        .with("minimised", Json::Bool(false))
}

fn truncate(s: &str, n: usize) -> String {
    if s.chars().count() <= n {
        s.to_string()
    } else {
        let t: String = s.chars().take(n).collect();
        format!("{}...", t)
    }
}

fn c15_run_one(batch_seed: u64, run_index: u64, out: &mut WorkerOut) -> bool {
    let seed = run_seed(batch_seed, run_index);
    let mut work = stream(seed, STREAM_WORKLOAD);
    let w = c15::gen_workload(&mut work);
    let (cfg, strategy, enabled) = sched::seeded_config(stream(seed, STREAM_SCHEDULE), w.threads.len());
    let outcome = match c15::run(&w, cfg) {
        Ok(o) => o,
        Err(_) => {
            out.stats.inc("parse_rejected");
            out.runs += 1;
            return true;
        },
    };
    out.runs += 1;
    let r = &outcome.report;
    out.stats.add("sched.forced_switches_from_blocked_threads", r.stalls);
    if r.stalls > 0 {
        out.stats.inc("simulations_with_library_level_blocking");
    }
    out.stats.inc("simulations");
    out.stats.add("sched.steps", r.steps);
    out.stats.add("fault_fired.sched_preempt", r.preemptions);
    out.stats.add("sched.switches", r.switches);
    out.stats.inc(&format!("strategy.{}", strategy));
    out.stats.inc(&format!("threads.{}", w.threads.len()));
    if r.preemptions > 0 {
        out.stats.inc("simulations_with_overlapping_evaluations");
    }
    let max_depth = w.trees.iter().map(|t| t.depth()).max().unwrap_or(0);
    out.stats.inc(if max_depth >= 150 {
        "tree_depth.150plus"
    } else if max_depth >= 60 {
        "tree_depth.60_149"
    } else if max_depth >= 20 {
        "tree_depth.20_59"
    } else {
        "tree_depth.lt20"
    });
    if w.fresh {
        out.stats.inc("fresh_shared_objects");
    }
    if w.cold {
        out.stats.inc("cold_first_simulations");
    }
    if w.early {
        out.stats.inc("early_bird_rechecks");
    }
    for i in 0..sched::N_SITES {
        if r.site_hits[i] > 0 {
            out.stats.add(&format!("site.{}", sched::site_name(i)), r.site_hits[i]);
        }
    }
    for ops in &w.threads {
        for o in ops {
            let j = o.to_json();
            out.stats.inc(&format!("thread_op.{}", j.get("op").and_then(|x| x.as_str()).unwrap_or("")));
        }
    }
    // distinct schedules: hash of the (thread, site) trace; non-trivial iff >= 1 preemption
    let mut h = Fnv::new();
    h.u64(r.trace_digest);
    h.str(&w.to_json().to_compact());
    out.distinct.push((h.finish(), if r.preemptions > 0 { 1 } else { 0 }));
    if out.samples.len() < 1 && run_index % 11 == 0 {
        out.samples.push(
            Json::obj()
                .with("run_index", Json::u(run_index))
                .with("run_seed", Json::u(seed))
                .with("threads", Json::u(w.threads.len() as u64))
                .with("strategy", Json::s(strategy.clone()))
                .with("shared_trees", Json::arr_of_str(w.trees.iter().map(|t| truncate(&t.render(), 200))))
                .with(
                    "thread_ops",
                    Json::Arr(w.threads.iter().map(|ops| Json::Arr(ops.iter().map(|o| o.to_json()).collect())).collect()),
                )
                .with("scheduler_steps", Json::u(r.steps))
                .with("preemptions", Json::u(r.preemptions))
                .with("schedule_prefix", Json::Arr(r.choices.iter().take(40).map(|c| Json::u(*c as u64)).collect())),
        );
    }
    let mut d = Fnv::new();
    d.u64(r.trace_digest);
    d.u64(r.steps);
    if let Some(f) = &outcome.finding {
        d.str(&f.class);
        let mut body = c15_replay_body(&w, f, &r.choices, &strategy, enabled, batch_seed, run_index, seed);
        if r.stalls > 0 {
            body.set("library_level_blocking", Json::Bool(true));
        }
        out.violations.push(body);
    }
    out.absorb_digest(run_index, d.finish());
    // a worker stops early once it has enough violations to report; after a deadlock the stuck
    // threads are leaked, so this process runs no further simulation
    out.violations.len() < 5 && !r.deadlock
}

fn worker_loop(args: &Args, mut one: impl FnMut(u64, u64, &mut WorkerOut) -> bool) {
    verifsim::env::install_quiet_panic_hook();
    sched::install_hook();
    let batch_seed = args.u64("batch-seed");
    let runs = args.u64("runs");
    let stride = args.u64("stride");
    let offset = args.u64("offset");
    let out_path = PathBuf::from(args.str("out"));
    let mut out = WorkerOut::default();
    let mut i = offset;
    while i < runs {
        if !one(batch_seed, i, &mut out) {
            break;
        }
        i += stride;
    }
    out.write(&out_path)
        .unwrap_or_else(|e| harness_error(&format!("cannot write worker output: {}", e)));
}

fn c15_replay_once(replay: &Json) -> Result<(c15::Workload, u32, Option<c15::CFinding>, sched::SimReport), String> {
    let w = c15::Workload::from_json(replay.field("workload")?)?;
    let enabled = replay
        .get("config")
        .and_then(|c| c.get("enabled_sites"))
        .map(sites_from_json)
        .unwrap_or((1 << sched::N_SITES) - 1);
    let list: Vec<u16> = replay
        .arr_field("schedule")?
        .iter()
        .filter_map(|x| x.as_u64())
        .map(|x| x as u16)
        .collect();
    let o = c15::run(&w, sched::replay_config(list, enabled))?;
    Ok((w, enabled, o.finding, o.report))
}

fn c15_replay(replay: &Json) -> i32 {
    verifsim::env::install_quiet_panic_hook();
    sched::install_hook();
    match c15_replay_once(replay) {
        Err(e) => {
            eprintln!("HARNESS-ERROR: {}", e);
            2
        },
        Ok((_, _, None, r)) => {
            println!("replay: no violation (property C15, {} scheduler steps)", r.steps);
            0
        },
        Ok((w, _, Some(f), r)) => {
            println!(
                "VIOLATION property=C15 class={} thread={} op={} steps={} preemptions={}",
                f.class, f.thread, f.op, r.steps, r.preemptions
            );
            if let Some(op) = w.threads.get(f.thread).and_then(|t| t.get(f.op)) {
                println!("  operation: {}", op.to_json().to_compact());
            }
            println!("  sequential: {}", truncate(&f.expected, 600));
            println!("  concurrent: {}", truncate(&f.actual, 600));
            1
        },
    }
}

/// Shrinks workload and schedule while the same violation class persists.
fn c15_minimise(replay: &Json) -> Json {
    sched::install_hook();
    // a deadlocked simulation leaks its stuck threads and costs the watchdog time: such a case is
    // reported as found (one confirmation replay in a fresh process), not minimised
    if replay.get("class").and_then(|c| c.as_str()) == Some("deadlock") {
        return replay.clone();
    }
    let (mut w, enabled, first, report) = match c15_replay_once(replay) {
        Ok(x) => x,
        Err(_) => return replay.clone(),
    };
    let mut best = match first {
        Some(f) => f,
        None => return replay.clone(),
    };
    let mut schedule = report.choices.clone();
    let seed = replay.get("run_seed").and_then(|x| x.as_u64()).unwrap_or(1);
    let mut steps = 0u32;
    // wall-clock budget (long simulations - thousands of repetitions, 100k-step schedules - cost
    // a second per re-execution): what is found by then is reported; it still replays exactly
    let started = std::time::Instant::now();
    let spent = |limit_s: u64| started.elapsed().as_secs() >= limit_s;
    let try_run = |w: &c15::Workload, list: Vec<u16>| -> Option<(c15::CFinding, Vec<u16>)> {
        match c15::run(w, sched::replay_config(list, enabled)) {
            Ok(o) => o.finding.map(|f| (f, o.report.choices)),
            Err(_) => None,
        }
    };
    let try_seeded = |w: &c15::Workload, k: u64| -> Option<(c15::CFinding, Vec<u16>)> {
        let (mut cfg, _, _) = sched::seeded_config(stream(seed ^ k.wrapping_mul(0x9E3779B97F4A7C15), STREAM_SCHEDULE), w.threads.len());
        cfg.enabled_sites = enabled;
        match c15::run(w, cfg) {
            Ok(o) => o.finding.map(|f| (f, o.report.choices)),
            Err(_) => None,
        }
    };
    // 1. workload
    let mut progress = true;
    while progress && steps < 1500 && !spent(60) {
        progress = false;
        let mut cands = c15::shrink_workload(&w);
        cands.sort_by_key(|c| c.weight());
        for cand in cands {
            if cand.weight() >= w.weight() {
                continue;
            }
            steps += 1;
            let mut hit = try_run(&cand, schedule.clone());
            if hit.as_ref().map(|(f, _)| f.class != best.class).unwrap_or(true) {
                hit = None;
                for k in 1..=12u64 {
                    steps += 1;
                    if let Some((f, ch)) = try_seeded(&cand, k) {
                        if f.class == best.class {
                            hit = Some((f, ch));
                            break;
                        }
                    }
                }
            }
            if let Some((f, ch)) = hit {
                w = cand;
                best = f;
                schedule = ch;
                progress = true;
                break;
            }
            if steps >= 1500 || spent(60) {
                break;
            }
        }
    }
    // 2. schedule: shortest prefix (after it the lowest runnable id continues)
    let mut lo = 0usize;
    let mut hi = schedule.len();
    while lo < hi {
        let mid = (lo + hi) / 2;
        steps += 1;
        match try_run(&w, schedule[..mid].to_vec()) {
            Some((f, _)) if f.class == best.class => hi = mid,
            _ => lo = mid + 1,
        }
    }
    if let Some((f, _)) = try_run(&w, schedule[..hi.min(schedule.len())].to_vec()) {
        if f.class == best.class {
            schedule.truncate(hi);
            best = f;
        }
    }
    // 3. fewer context switches: set single choices to 0 (lowest runnable id)
    let mut i = 0;
    while i < schedule.len() && steps < 4000 && !spent(100) {
        if schedule[i] != 0 {
            let mut cand = schedule.clone();
            cand[i] = 0;
            steps += 1;
            if let Some((f, _)) = try_run(&w, cand.clone()) {
                if f.class == best.class {
                    schedule = cand;
                    best = f;
                }
            }
        }
        i += 1;
    }
    while schedule.last() == Some(&0) {
        schedule.pop();
    }
    let mut body = c15_replay_body(
        &w,
        &best,
        &schedule,
        "replay",
        enabled,
        replay.get("batch_seed").and_then(|x| x.as_u64()).unwrap_or(0),
        replay.get("run_index").and_then(|x| x.as_u64()).unwrap_or(0),
        seed,
    );
    body.set("minimised", Json::Bool(true));
    body.set("minimisation_steps", Json::u(steps as u64));
    if let Some(orig) = replay.get("schedule").and_then(|s| s.as_arr()) {
        body.set("original_schedule_length", Json::u(orig.len() as u64));
    }
    body
}

fn c15_tier_runs(tier: &str) -> u64 {
    let base = if tier == "thorough" { 1_200_000 } else { 24_000 };
    match std::env::var("VERIF_RUNS") {
        Ok(s) => s.parse().unwrap_or(base),
        Err(_) => base,
    }
}

fn c15_check(tier: &str, exe: &Path, args: &Args) -> i32 {
    // the parent minimises in-process: user-function panics of the workload must stay quiet
    verifsim::env::install_quiet_panic_hook();
    let batch_seed = batch_seed_from_env();
    let runs = c15_tier_runs(tier);
    let workers = (default_workers() / 3).max(1);
    println!(
        "C15 {}: VERIF_SEED={} simulations={} worker processes={} (each simulation runs 2-4 parked threads)",
        tier, batch_seed, runs, workers
    );
    let spec = BatchSpec {
        prop: "C15".to_string(),
        part: "hooks".to_string(),
        tier: tier.to_string(),
        batch_seed,
        runs,
        workers,
        exe: exe.to_path_buf(),
    };
    let res = run_batch(&spec);
    let verdict = handle_violations(exe, &res.out.violations, &mut |v| c15_minimise(v), 3);
    let s = &res.out.stats;
    let mut stuck = Vec::new();
    for i in 0..sched::N_SITES {
        if s.get(&format!("site.{}", sched::site_name(i))) == 0 {
            stuck.push(format!("site.{}", sched::site_name(i)));
        }
    }
    for p in ["fault_fired.sched_preempt", "threads.2", "threads.3", "threads.4", "threads.8", "tree_depth.150plus", "fresh_shared_objects"] {
        if s.get(p) == 0 {
            stuck.push(p.to_string());
        }
    }
    let miri = args.named.get("miri-summary").and_then(|p| std::fs::read_to_string(p).ok()).and_then(|t| Json::parse(&t).ok());
    let hours = res.wall_s / 3600.0;
    let coverage = Json::obj()
        .with("evaluations", Json::u(res.out.runs))
        .with("distinct_nontrivial", Json::u(res.distinct_nontrivial))
        .with("rule", Json::s("one evaluation = one simulation: 3-6 shared precompiled trees (deep ones, assignments, failing ones), shared HashMapContext (with and without builtins), EmptyContext, EmptyContextWithBuiltinFunctions, values, errors, functions behind Arc; 2-4 simulated threads (real OS threads, parked, released one at a time at the library's hook sites by the seeded scheduler) each executing 2-6 operations (typed/untyped evaluation of shared tree x shared context, parse+evaluate, build_operator_tree, identifier iterators, Display/Debug/clone/==, mutable scripts on a private clone of the shared context or on a fresh context, clone+rename+evaluate, Node::eval()); oracle: every concurrent result equals the result of the same operation executed sequentially before the run, shared objects unchanged afterwards, second sequential pass unchanged. distinct_nontrivial = distinct (workload, (thread, site) schedule trace) pairs with at least one preemption, i.e. a switch away from a thread that was in the middle of a library call."))
        .with("samples", Json::Arr(res.out.samples.clone()))
        .with("simulated_runs", Json::u(res.out.runs))
        .with("runs_per_hour", Json::u((res.out.runs as f64 / hours.max(1e-9)) as u64))
        .with("seeds", Json::s(format!("simulation i uses mix(VERIF_SEED={}, i), i in 0..{}; independent workload and schedule streams", batch_seed, runs)))
        .with("simulated_time", Json::s("none: no clock or timer in evalexpr; progress is counted in scheduler steps"))
        .with("scheduler_steps", Json::u(s.get("sched.steps")))
        .with("context_switches", Json::u(s.get("sched.switches")))
        .with("fault_kinds_fired", Json::obj().with("sched_preempt", Json::u(s.get("fault_fired.sched_preempt"))))
        .with("simulations_with_overlapping_evaluations", Json::u(s.get("simulations_with_overlapping_evaluations")))
        .with("strategies", s.group("strategy"))
        .with("thread_counts", s.group("threads"))
        .with("max_tree_depth", s.group("tree_depth"))
        .with("runs_with_fresh_shared_objects", Json::u(s.get("fresh_shared_objects")))
        .with("thread_operations", s.group("thread_op"))
        .with("hook_sites_hit", s.group("site"))
        .with("send_sync_probe", Json::s(match args.named.get("probe").map(|s| s.as_str()) {
            Some("ok") => "compiled: Node, Value, EvalexprError, Function, Operator, HashMapContext, EmptyContext, EmptyContextWithBuiltinFunctions are Send + Sync (decided by rustc)",
            _ => "not run by this invocation",
        }))
        .with("miri_engine", miri.unwrap_or_else(|| Json::obj().with("ran", Json::Bool(false))))
        .with("simulations_with_library_level_blocking", Json::u(s.get("simulations_with_library_level_blocking")))
        .with("forced_switches_from_blocked_threads", Json::u(s.get("sched.forced_switches_from_blocked_threads")))
        .with("probes_stuck_at_zero", Json::arr_of_str(stuck.iter().cloned()))
        .with("event_log_digest", Json::s(format!("{:016x}", res.out.digest)))
        .with(
            "components",
            Json::obj()
                .with("real", Json::arr_of_str(["tokenizer", "tree builder", "both evaluators", "operators", "builtin functions", "Function", "HashMapContext", "EmptyContext", "EmptyContextWithBuiltinFunctions", "tree iterators", "Display/Debug/Clone/PartialEq impls", "real OS threads"]))
                .with("stub", Json::arr_of_str(["scheduler (decides which parked thread continues at each hook site)", "pure sentinel user functions"]))
                .with("absent", Json::arr_of_str(["clock", "network", "disk"])),
        )
        .with("known_findings_matched", Json::u(verdict.known));
    let evidence = Evidence {
        property_id: "C15".to_string(),
        tier: tier.to_string(),
        seed: batch_seed,
        level: "exploration".to_string(),
        coverage,
        assumptions: vec![
            "preemption happens only at the library's hook sites (feature verif-hooks); a race whose two conflicting accesses lie between two adjacent hook sites of one thread is out of reach of this engine (the Miri engine of the thorough tier preempts at basic-block granularity)".to_string(),
            "the Send + Sync part of the property is decided by the compiler on the probe binary".to_string(),
            "user functions are pure".to_string(),
        ],
        wall_s: res.wall_s,
        violations: verdict.new_violations,
    };
    match args.named.get("defer-evidence") {
        // the caller merges the Miri engine's summary in (finish-evidence) before the file is written
        Some(path) => std::fs::write(path, evidence.to_json().to_pretty())
            .unwrap_or_else(|e| harness_error(&format!("cannot write deferred evidence: {}", e))),
        None => evidence.write(),
    }
    let blocked = s.get("simulations_with_library_level_blocking");
    if blocked > 0 {
        println!(
            "note: in {} simulation(s) a simulated thread blocked on a lock or condvar inside the library; the scheduler switched away from it {} times (forced switches)",
            blocked,
            s.get("sched.forced_switches_from_blocked_threads")
        );
    }
    println!(
        "C15 {}: simulations={} scheduler_steps={} preemptions={} distinct_schedules={} wall={:.1}s violations={} known={}",
        tier,
        res.out.runs,
        s.get("sched.steps"),
        s.get("fault_fired.sched_preempt"),
        res.distinct_nontrivial,
        res.wall_s,
        verdict.new_violations,
        verdict.known
    );
    if !stuck.is_empty() {
        println!("note: probes stuck at zero: {}", stuck.join(", "));
    }
    if verdict.new_violations > 0 {
        1
    } else {
        0
    }
}

fn main() {
    let argv: Vec<String> = std::env::args().skip(1).collect();
    if argv.is_empty() {
        harness_error("usage: verifsim_mt check|worker|replay|minimise|selftest ...");
    }
    let args = Args::parse(&argv[1..]);
    if matches!(argv[0].as_str(), "worker" | "replay" | "minimise" | "selftest") {
        // before anything else in this process touches the library
        c15::start_process_early_bird();
    }
    let code = match argv[0].as_str() {
        "check" => {
            let id = args.positional.first().map(|s| s.as_str()).unwrap_or("");
            let tier = args.positional.get(1).map(|s| s.as_str()).unwrap_or("quick");
            match id {
                "C15" => {
                    let exe = std::env::current_exe().unwrap_or_else(|e| harness_error(&e.to_string()));
                    c15_check(tier, &exe, &args)
                },
                _ => harness_error(&format!("unknown property {}", id)),
            }
        },
        "worker" => {
            let id = args.positional.first().map(|s| s.as_str()).unwrap_or("");
            match id {
                "C15" => worker_loop(&args, c15_run_one),
                "C04" => worker_loop(&args, c04mt::run_one),
                _ => harness_error(&format!("unknown property {}", id)),
            }
            0
        },
        "replay" => {
            let path = args.positional.first().unwrap_or_else(|| harness_error("replay: missing file"));
            let text = std::fs::read_to_string(path).unwrap_or_else(|e| harness_error(&format!("{}: {}", path, e)));
            let j = Json::parse(&text).unwrap_or_else(|e| harness_error(&format!("{}: {}", path, e)));
            if j.get("process_prefix").is_some() {
                let exe = std::env::current_exe().unwrap_or_else(|e| harness_error(&e.to_string()));
                std::process::exit(verifsim::driver::prefix_replay(&exe, &j));
            }
            match j.get("engine").and_then(|e| e.as_str()) {
                Some("hooks") => c15_replay(&j),
                Some("history-mt") => c04mt::replay(&j),
                other => harness_error(&format!("replay: engine {:?} is not served by this binary", other)),
            }
        },
        "minimise" => {
            verifsim::env::install_quiet_panic_hook();
            let inp = args.positional.first().unwrap_or_else(|| harness_error("minimise: missing input"));
            let outp = args.positional.get(1).unwrap_or_else(|| harness_error("minimise: missing output"));
            let text = std::fs::read_to_string(inp).unwrap_or_else(|e| harness_error(&e.to_string()));
            let j = Json::parse(&text).unwrap_or_else(|e| harness_error(&e));
            let m = match j.get("engine").and_then(|e| e.as_str()) {
                Some("hooks") => c15_minimise(&j),
                Some("history-mt") => c04mt::minimise(&j),
                _ => j.clone(),
            };
            std::fs::write(outp, m.to_compact()).unwrap_or_else(|e| harness_error(&e.to_string()));
            0
        },
        "finish-evidence" => {
            // finish-evidence <hooks evidence json> <miri summary json>: merge and write C15.json
            let read = |i: usize| -> Json {
                let p = args.positional.get(i).unwrap_or_else(|| harness_error("finish-evidence: missing file"));
                let t = std::fs::read_to_string(p).unwrap_or_else(|e| harness_error(&format!("{}: {}", p, e)));
                Json::parse(&t).unwrap_or_else(|e| harness_error(&format!("{}: {}", p, e)))
            };
            let mut ev = read(0);
            let miri = read(1);
            let miri_runs = miri.get("interpreted_runs_ok").and_then(|x| x.as_u64()).unwrap_or(0);
            let miri_wall = miri.get("wall_s").and_then(|x| x.as_f64()).unwrap_or(0.0);
            let miri_violation = miri.get("violation").and_then(|x| x.as_bool()).unwrap_or(false);
            let mut cov = ev.get("coverage").cloned().unwrap_or_else(Json::obj);
            let evals = cov.get("evaluations").and_then(|x| x.as_u64()).unwrap_or(0);
            cov.set("evaluations", Json::u(evals + miri_runs));
            cov.set("hook_engine_simulations", Json::u(evals));
            cov.set("miri_engine", miri);
            ev.set("coverage", cov);
            let wall = ev.get("wall_s").and_then(|x| x.as_f64()).unwrap_or(0.0);
            ev.set("wall_s", Json::Float(((wall + miri_wall) * 1000.0).round() / 1000.0));
            if miri_violation {
                let v = ev.get("violations").and_then(|x| x.as_u64()).unwrap_or(0);
                ev.set("violations", Json::u(v + 1));
            }
            driver::write_evidence_json("C15", &ev);
            0
        },
        // builds everything for Miri and exits (tools/miri_engine.sh uses it to separate build
        // failures from verdicts)
        "miri-noop" => 0,
        "miri-scenario" => {
            let seed: u64 = args.positional.first().and_then(|s| s.parse().ok()).unwrap_or(1);
            verifsim::env::install_quiet_panic_hook();
            c15::miri_scenario(seed)
        },
        "selftest" => {
            // prints the digest of a small batch; the caller compares digests across processes
            verifsim::env::install_quiet_panic_hook();
            sched::install_hook();
            let runs: u64 = args.positional.first().and_then(|s| s.parse().ok()).unwrap_or(200);
            let batch_seed = batch_seed_from_env();
            let mut out = WorkerOut::default();
            for i in 0..runs {
                let _ = c15_run_one(batch_seed, i, &mut out);
            }
            let mut out2 = WorkerOut::default();
            for i in 0..runs {
                let _ = c04mt::run_one(batch_seed, i, &mut out2);
            }
            println!("c15={:016x} c04mt={:016x}", out.digest, out2.digest);
            0
        },
        other => harness_error(&format!("unknown command {}", other)),
    };
    let _ = driver::DEFAULT_SEED;
    std::process::exit(code);
}
