//! Threaded part of C04: every actor of a history runs on its own simulated thread under the
//! deterministic scheduler; a forked actor starts when its parent hands the clone over through a
//! harness-owned mailbox (thread migration). Predictions come from a model-only pass, so they do
//! not depend on the interleaving; each thread compares return value and own complete observable
//! state after every step.

use crate::sched;
use std::sync::{Arc, Mutex};
use verifsim::driver::{run_seed, WorkerOut};
use verifsim::history::{
    apply_real, observe_real, plan_threaded, Ctx, HFinding, History, Op, PlannedStep,
};
use verifsim::history_engine::{gen_for_seed, minimise_with, replay_body};
use verifsim::json::Json;
use verifsim::refint::Delegate;
use verifsim::rng::{stream, Fnv, STREAM_SCHEDULE};

pub struct MtOutcome {
    pub finding: Option<HFinding>,
    pub report: sched::SimReport,
    pub threads: usize,
    pub migrations: u64,
    pub steps: u64,
}

/// Runs the planned actors under the scheduler.
pub fn run_plans(plans: &[Vec<PlannedStep>], cfg: sched::SimConfig) -> MtOutcome {
    let n = plans.len();
    let mailboxes: Arc<Vec<Mutex<Option<Ctx>>>> = Arc::new((0..n).map(|_| Mutex::new(None)).collect());
    let finding: Arc<Mutex<Option<HFinding>>> = Arc::new(Mutex::new(None));
    // every actor hands its context back to the main thread at the end (moved across threads
    // once more), where all of them are observed one after the other on ONE thread
    let returned: Arc<Vec<Mutex<Option<Ctx>>>> = Arc::new((0..n).map(|_| Mutex::new(None)).collect());
    let migrations = Arc::new(Mutex::new(0u64));
    let steps_done = Arc::new(Mutex::new(0u64));
    // which actors are ever created
    let mut created = vec![false; n];
    created[0] = true;
    for p in plans {
        for s in p {
            if let Some(t) = s.fork_target {
                created[t] = true;
            }
        }
    }
    let mut bodies: Vec<Box<dyn FnOnce() + Send>> = Vec::new();
    for k in 0..n {
        let plan = plans[k].clone();
        let mailboxes = mailboxes.clone();
        let finding = finding.clone();
        let migrations = migrations.clone();
        let steps_done = steps_done.clone();
        let returned = returned.clone();
        let is_created = created[k];
        bodies.push(Box::new(move || {
            if !is_created {
                return;
            }
            let mut ctx: Ctx = if k == 0 {
                Ctx::new()
            } else {
                // wait for the clone to arrive; the delivery instant is the scheduler's choice
                loop {
                    if let Some(c) = mailboxes[k].lock().unwrap().take() {
                        *migrations.lock().unwrap() += 1;
                        break c;
                    }
                    if finding.lock().unwrap().is_some() || sched::aborted() {
                        return;
                    }
                    sched::block_current();
                }
            };
            for step in &plan {
                if finding.lock().unwrap().is_some() {
                    return;
                }
                let actual = match &step.op {
                    Op::Fork => {
                        let clone = ctx.clone();
                        if let Some(t) = step.fork_target {
                            *mailboxes[t].lock().unwrap() = Some(clone);
                            sched::unblock(t);
                        }
                        "()".to_string()
                    },
                    Op::Reset | Op::ResetDefault | Op::ResetMacro => {
                        ctx = verifsim::history::fresh_context(&step.op, None).0;
                        "()".to_string()
                    },
                    op => apply_real(&mut ctx, op, None),
                };
                *steps_done.lock().unwrap() += 1;
                let mut f = None;
                if actual != step.expected {
                    f = Some(HFinding {
                        class: if actual.starts_with("PANIC") {
                            "panic".into()
                        } else if matches!(step.op, Op::OpAssignEquiv { .. }) {
                            "opassign-equivalence".into()
                        } else {
                            "return-mismatch".into()
                        },
                        step: step.index,
                        actor: k,
                        expected: step.expected.clone(),
                        actual,
                    });
                } else {
                    let obs = observe_real(&ctx);
                    if obs != step.obs {
                        let (expected, actual) = step.obs.diff(&obs);
                        f = Some(HFinding {
                            class: "state-mismatch".into(),
                            step: step.index,
                            actor: k,
                            expected,
                            actual,
                        });
                    }
                }
                if let Some(f) = f {
                    let mut g = finding.lock().unwrap();
                    if g.is_none() {
                        *g = Some(f);
                    }
                    return;
                }
            }
            *returned[k].lock().unwrap() = Some(ctx);
        }));
    }
    let report = sched::simulate(cfg, bodies);
    let mut f = finding.lock().unwrap().take();
    if f.is_none() {
        // final cross-check on the main thread: all contexts against the last state the model
        // predicts for each; function lookups are probed name-major (the same name on every
        // context in turn), then the complete observation per context
        let mut ctxs: Vec<(usize, Ctx)> = Vec::new();
        for k in 0..n {
            if let Some(c) = returned[k].lock().unwrap().take() {
                if !plans[k].is_empty() {
                    ctxs.push((k, c));
                }
            }
        }
        let probe = evalexpr::Value::Int(41);
        'names: for (pi, name) in ["f", "g", "len", "a", "nofn", "len", "typeof"].iter().enumerate() {
            for (k, c) in &ctxs {
                let last = plans[*k].last().unwrap();
                let got = format!("{}:{}", name, verifsim::canon::cr(&evalexpr::Context::call_function(c, name, &probe)));
                if last.obs.fn_probes.get(pi) != Some(&got) {
                    f = Some(HFinding {
                        class: "state-mismatch".into(),
                        step: last.index,
                        actor: *k,
                        expected: format!("(final name-major probe of all contexts on the main thread) {:?}", last.obs.fn_probes.get(pi)),
                        actual: got,
                    });
                    break 'names;
                }
            }
        }
        if f.is_none() {
            for (k, ctx) in &ctxs {
                let last = plans[*k].last().unwrap();
                let obs = match std::panic::catch_unwind(std::panic::AssertUnwindSafe(|| observe_real(ctx))) {
                    Ok(o) => o,
                    Err(_) => continue,
                };
                if obs != last.obs {
                    let (expected, actual) = last.obs.diff(&obs);
                    f = Some(HFinding {
                        class: "state-mismatch".into(),
                        step: last.index,
                        actor: *k,
                        expected: format!("(final observation of all contexts on the main thread) {}", expected),
                        actual,
                    });
                    break;
                }
            }
        }
    }
    if f.is_none() {
        if let Some((t, msg)) = report.panics.first() {
            f = Some(HFinding {
                class: "panic".into(),
                step: 0,
                actor: *t,
                expected: "no panic".into(),
                actual: format!("PANIC: {}", msg),
            });
        } else if report.deadlock {
            f = Some(HFinding {
                class: "deadlock".into(),
                step: 0,
                actor: 0,
                expected: "every actor finishes".into(),
                actual: format!("all live threads are stuck in primitives of the library for {} s", sched::WATCHDOG_S),
            });
        } else if let Some(t) = report.no_progress {
            f = Some(HFinding {
                class: "no-progress".into(),
                step: 0,
                actor: t,
                expected: format!("actor finishes within {} scheduler steps", sched::STEP_CAP),
                actual: "step cap exceeded".into(),
            });
        }
    }
    let m = *migrations.lock().unwrap();
    let sd = *steps_done.lock().unwrap();
    MtOutcome {
        finding: f,
        report,
        threads: created.iter().filter(|c| **c).count(),
        migrations: m,
        steps: sd,
    }
}

fn sites_to_json(mask: u32) -> Json {
    Json::arr_of_str((0..sched::N_SITES).filter(|i| mask & (1 << i) != 0).map(sched::site_name))
}

fn sites_from_json(j: &Json) -> u32 {
    let mut m = 0u32;
    if let Some(a) = j.as_arr() {
        for s in a {
            if let Some(name) = s.as_str() {
                for i in 0..sched::N_SITES {
                    if sched::site_name(i) == name {
                        m |= 1 << i;
                    }
                }
            }
        }
    }
    m
}

pub fn run_one(batch_seed: u64, run_index: u64, out: &mut WorkerOut) -> bool {
    let seed = run_seed(batch_seed, run_index);
    let mut d = Delegate::new();
    // histories of the threaded part are a different stream position than the sequential ones
    let h = gen_for_seed(seed ^ 0x7468_7265_6164, &mut d);
    let plans = plan_threaded(&h, &mut d);
    let (cfg, strategy, enabled) = sched::seeded_config(stream(seed, STREAM_SCHEDULE), plans.len());
    let o = run_plans(&plans, cfg);
    out.stats.add("sched.forced_switches_from_blocked_threads", o.report.stalls);
    out.runs += 1;
    out.stats.inc("histories");
    out.stats.add("steps", o.steps);
    out.stats.add("sched.steps", o.report.steps);
    out.stats.add("fault_fired.sched_preempt", o.report.preemptions);
    out.stats.add("fault_fired.thread_migration", o.migrations);
    out.stats.inc(&format!("threads.{}", o.threads));
    for i in 0..sched::N_SITES {
        if o.report.site_hits[i] > 0 {
            out.stats.add(&format!("site.{}", sched::site_name(i)), o.report.site_hits[i]);
        }
    }
    let mut hh = Fnv::new();
    hh.u64(h.hash());
    hh.u64(o.report.trace_digest);
    out.distinct.push((hh.finish(), if o.report.preemptions > 0 && o.threads >= 2 { 1 } else { 0 }));
    if out.samples.is_empty() && o.threads >= 2 && run_index % 3 == 0 {
        out.samples.push(
            Json::obj()
                .with("run_index", Json::u(run_index))
                .with("run_seed", Json::u(seed))
                .with("configuration", Json::s("threaded: one simulated thread per actor"))
                .with("strategy", Json::s(strategy.clone()))
                .with("threads", Json::u(o.threads as u64))
                .with("history", Json::arr_of_str(h.render()))
                .with("scheduler_steps", Json::u(o.report.steps))
                .with("preemptions", Json::u(o.report.preemptions)),
        );
    }
    let mut dg = Fnv::new();
    dg.u64(o.report.trace_digest);
    dg.u64(o.steps);
    if let Some(f) = &o.finding {
        dg.str(&f.class);
        let mut body = replay_body("history-mt", &h, f, batch_seed, run_index, seed);
        body.set("schedule", Json::Arr(o.report.choices.iter().map(|c| Json::u(*c as u64)).collect()));
        body.set(
            "config",
            Json::obj()
                .with("strategy", Json::s(strategy))
                .with("enabled_sites", sites_to_json(enabled))
                .with("threads", Json::u(o.threads as u64)),
        );
        out.violations.push(body);
    }
    out.absorb_digest(run_index, dg.finish());
    out.violations.len() < 5 && !o.report.deadlock
}

fn replay_parts(replay: &Json) -> Result<(History, Vec<u16>, u32), String> {
    let h = History::from_json(replay.field("history")?)?;
    let list: Vec<u16> = replay
        .get("schedule")
        .and_then(|s| s.as_arr())
        .map(|a| a.iter().filter_map(|x| x.as_u64()).map(|x| x as u16).collect())
        .unwrap_or_default();
    let enabled = replay
        .get("config")
        .and_then(|c| c.get("enabled_sites"))
        .map(sites_from_json)
        .unwrap_or((1 << sched::N_SITES) - 1);
    Ok((h, list, enabled))
}

pub fn replay(replay: &Json) -> i32 {
    verifsim::env::install_quiet_panic_hook();
    sched::install_hook();
    let (h, list, enabled) = match replay_parts(replay) {
        Ok(x) => x,
        Err(e) => {
            eprintln!("HARNESS-ERROR: {}", e);
            return 2;
        },
    };
    let mut d = Delegate::new();
    let plans = plan_threaded(&h, &mut d);
    let o = run_plans(&plans, sched::replay_config(list, enabled));
    match o.finding {
        None => {
            println!("replay: no violation (property C04, threaded, {} steps)", h.steps.len());
            0
        },
        Some(f) => {
            println!(
                "VIOLATION property=C04 class={} step={} actor={} (threaded, {} scheduler steps)",
                f.class, f.step, f.actor, o.report.steps
            );
            for l in h.render() {
                println!("  {}", l);
            }
            println!("  expected: {}", f.expected);
            println!("  actual:   {}", f.actual);
            1
        },
    }
}

pub fn minimise(replay: &Json) -> Json {
    sched::install_hook();
    if replay.get("class").and_then(|c| c.as_str()) == Some("deadlock") {
        return replay.clone();
    }
    let (_, list, enabled) = match replay_parts(replay) {
        Ok(x) => x,
        Err(_) => return replay.clone(),
    };
    let seed = replay.get("run_seed").and_then(|x| x.as_u64()).unwrap_or(1);
    let mut d = Delegate::new();
    let mut last_schedule = list.clone();
    let mut body = minimise_with(replay, "history-mt", &mut |h| {
        let plans = plan_threaded(h, &mut d);
        // the recorded schedule first, then a few fresh seeded ones
        let o = run_plans(&plans, sched::replay_config(list.clone(), enabled));
        if o.finding.is_some() {
            last_schedule = o.report.choices.clone();
            return o.finding;
        }
        for k in 1..=6u64 {
            let (mut cfg, _, _) = sched::seeded_config(stream(seed ^ k.wrapping_mul(0x9E3779B97F4A7C15), STREAM_SCHEDULE), plans.len());
            cfg.enabled_sites = enabled;
            let o = run_plans(&plans, cfg);
            if o.finding.is_some() {
                last_schedule = o.report.choices.clone();
                return o.finding;
            }
        }
        None
    });
    body.set("schedule", Json::Arr(last_schedule.iter().map(|c| Json::u(*c as u64)).collect()));
    body
}
