//! Deterministic scheduler over real, parked OS threads. Exactly one simulated thread runs at any
//! instant; at every hook point of the library (feature `verif-hooks`) the running thread calls
//! the scheduler, which draws from the run's schedule stream which runnable thread continues,
//! hands over by an atomic turn variable and parks the caller (spinning). The choice of who runs
//! is never the operating system's. One simulation at a time per process.

use evalexpr::verif::Site;
use std::cell::Cell;
use std::panic::{catch_unwind, AssertUnwindSafe};
use std::sync::atomic::{AtomicBool, AtomicUsize, Ordering};
use std::sync::Mutex;
use std::time::{Duration, Instant};
use verifsim::rng::{Fnv, Rng};

pub const MAIN: usize = usize::MAX;
pub const N_SITES: usize = 19;
pub const STEP_CAP: u64 = 100_000;
/// real-time watchdog: only trips if library code blocks on a primitive the simulator does not own
pub const WATCHDOG_S: u64 = 4;

static TURN: AtomicUsize = AtomicUsize::new(MAIN);
static ACTIVE: AtomicBool = AtomicBool::new(false);
static STATE: Mutex<Option<SimState>> = Mutex::new(None);

thread_local! {
    static ME: Cell<Option<usize>> = const { Cell::new(None) };
}

pub fn site_index(site: Site) -> usize {
    Site::ALL.iter().position(|s| *s == site).unwrap_or(0)
}

pub fn site_name(i: usize) -> String {
    format!("{:?}", Site::ALL[i])
}

#[derive(Clone, Copy, Debug, PartialEq, Eq)]
enum Status {
    Parked,
    Running,
    /// waiting for a harness-level event (mailbox delivery); not runnable until unblocked
    Blocked,
    Done,
}

#[derive(Clone, Debug, PartialEq)]
pub enum Strategy {
    /// uniform over the runnable threads
    Random,
    /// continue the current thread with the given probability (percent)
    Sticky(u64),
    /// PCT-style: random priorities, `d` priority-change points
    Pct { change_points: Vec<u64> },
    /// round robin with a random quantum
    Quantum(u64),
}

impl Strategy {
    pub fn name(&self) -> String {
        match self {
            Strategy::Random => "random".into(),
            Strategy::Sticky(p) => format!("sticky{}", p),
            Strategy::Pct { change_points } => format!("pct{}", change_points.len()),
            Strategy::Quantum(q) => format!("quantum{}", q),
        }
    }
}

pub enum Chooser {
    Seeded { rng: Rng, strategy: Strategy, priorities: Vec<u64>, quantum_left: u64 },
    Replay { list: Vec<u16>, pos: usize },
}

struct SimState {
    status: Vec<Status>,
    chooser: Chooser,
    choices: Vec<u16>,
    steps: u64,
    steps_of: Vec<u64>,
    enabled_sites: u32,
    site_hits: [u64; N_SITES],
    preemptions: u64,
    switches: u64,
    free_run: bool,
    /// all remaining threads were blocked (their event can no longer arrive): they are released
    /// and must give up
    aborted: bool,
    no_progress: Option<usize>,
    trace: Fnv,
    max_alive_at_switch: usize,
}

#[derive(Clone, Debug, Default)]
pub struct SimReport {
    pub choices: Vec<u16>,
    pub steps: u64,
    pub site_hits: [u64; N_SITES],
    /// switches to another thread while the yielding thread was not finished
    pub preemptions: u64,
    pub switches: u64,
    pub no_progress: Option<usize>,
    /// digest of the (thread, site) sequence: the event log of the schedule
    pub trace_digest: u64,
    pub panics: Vec<(usize, String)>,
    pub watchdog: bool,
}

/// The process-wide hook given to `evalexpr::verif::install`.
pub fn hook(site: Site) {
    if !ACTIVE.load(Ordering::Relaxed) {
        return;
    }
    let me = match ME.with(|m| m.get()) {
        Some(me) => me,
        None => return,
    };
    yield_at(me, Some(site), false, false);
}

/// A yield point of the harness itself.
#[allow(dead_code)]
pub fn harness_yield() {
    if let Some(me) = ME.with(|m| m.get()) {
        yield_at(me, None, false, false);
    }
}

/// Blocks the calling simulated thread until `unblock(me)` is called by another simulated thread
/// (or until the simulation is aborted because nothing else can run).
pub fn block_current() {
    if let Some(me) = ME.with(|m| m.get()) {
        yield_at(me, None, false, true);
    }
}

/// Makes a blocked thread runnable again. Called by the running simulated thread.
pub fn unblock(t: usize) {
    if let Some(st) = STATE.lock().unwrap().as_mut() {
        if t < st.status.len() && st.status[t] == Status::Blocked {
            st.status[t] = Status::Parked;
        }
    }
}

/// True once the scheduler gave up on blocked threads (their event can no longer arrive).
pub fn aborted() -> bool {
    STATE.lock().unwrap().as_ref().map(|s| s.aborted).unwrap_or(true)
}

pub fn install_hook() {
    // `install` returns false if a hook is already installed (same function): fine
    let _ = evalexpr::verif::install(hook);
}

fn wait_for_turn(me: usize) {
    let mut spins = 0u32;
    while TURN.load(Ordering::Acquire) != me {
        spins += 1;
        if spins < 300 {
            std::hint::spin_loop();
        } else {
            std::thread::yield_now();
        }
    }
}

fn pick(st: &mut SimState, runnable: &[usize], me: usize, me_runnable: bool) -> usize {
    let step = st.steps;
    match &mut st.chooser {
        Chooser::Replay { list, pos } => {
            let idx = if *pos < list.len() {
                let i = list[*pos] as usize;
                *pos += 1;
                i % runnable.len()
            } else {
                0
            };
            idx
        },
        Chooser::Seeded { rng, strategy, priorities, quantum_left } => match strategy {
            Strategy::Random => rng.usize_below(runnable.len()),
            Strategy::Sticky(p) => {
                if me_runnable && rng.percent(*p) {
                    runnable.iter().position(|t| *t == me).unwrap()
                } else {
                    rng.usize_below(runnable.len())
                }
            },
            Strategy::Quantum(q) => {
                if me_runnable && *quantum_left > 0 {
                    *quantum_left -= 1;
                    runnable.iter().position(|t| *t == me).unwrap()
                } else {
                    *quantum_left = *q;
                    // next thread after me in id order
                    let next = runnable.iter().position(|t| *t > me && me != MAIN).unwrap_or(0);
                    next
                }
            },
            Strategy::Pct { change_points } => {
                if me != MAIN && change_points.contains(&step) {
                    // the running thread drops to the lowest priority
                    let lowest = priorities.iter().copied().min().unwrap_or(0);
                    if me < priorities.len() {
                        priorities[me] = lowest.saturating_sub(1);
                    }
                }
                let mut best = 0;
                for (i, t) in runnable.iter().enumerate() {
                    if priorities[*t] > priorities[runnable[best]] {
                        best = i;
                    }
                }
                best
            },
        },
    }
}

fn yield_at(me: usize, site: Option<Site>, done: bool, block: bool) {
    let next;
    {
        let mut guard = STATE.lock().unwrap();
        let st = match guard.as_mut() {
            Some(st) => st,
            None => return,
        };
        if !done {
            if st.free_run {
                return;
            }
            if let Some(site) = site {
                let i = site_index(site);
                if st.enabled_sites & (1 << i) == 0 {
                    return;
                }
                st.site_hits[i] += 1;
                st.trace.u64(((me as u64) << 8) | i as u64);
            } else {
                st.trace.u64(((me as u64) << 8) | 0xff);
            }
            st.steps_of[me] += 1;
            if st.steps_of[me] > STEP_CAP {
                // deterministic, replayable "no progress": stop scheduling, let everything drain
                st.no_progress = Some(me);
                st.free_run = true;
                return;
            }
        }
        st.status[me] = if done {
            Status::Done
        } else if block && !st.aborted {
            Status::Blocked
        } else {
            Status::Parked
        };
        let mut runnable: Vec<usize> = (0..st.status.len())
            .filter(|t| st.status[*t] == Status::Parked)
            .collect();
        if runnable.is_empty() {
            if st.status.iter().any(|s| *s == Status::Blocked) {
                // nothing can run any more but some threads still wait: release them to give up
                st.aborted = true;
                for s in st.status.iter_mut() {
                    if *s == Status::Blocked {
                        *s = Status::Parked;
                    }
                }
                runnable = (0..st.status.len())
                    .filter(|t| st.status[*t] == Status::Parked)
                    .collect();
            } else {
                drop(guard);
                TURN.store(MAIN, Ordering::Release);
                return;
            }
        }
        let me_runnable = runnable.contains(&me);
        let idx = pick(st, &runnable, me, me_runnable);
        next = runnable[idx];
        st.choices.push(idx as u16);
        st.status[next] = Status::Running;
        st.steps += 1;
        if next != me {
            st.switches += 1;
            if !done {
                st.preemptions += 1;
            }
            let alive = st.status.iter().filter(|s| **s != Status::Done).count();
            if alive > st.max_alive_at_switch {
                st.max_alive_at_switch = alive;
            }
        }
    }
    if next != me {
        TURN.store(next, Ordering::Release);
        if !done {
            wait_for_turn(me);
        }
    }
}

pub struct SimConfig {
    pub chooser: Chooser,
    pub enabled_sites: u32,
}

/// Draws strategy and enabled-site subset from the run's schedule stream (swarm style).
pub fn seeded_config(mut rng: Rng, threads: usize) -> (SimConfig, String, u32) {
    let strategy = match rng.below(10) {
        0..=2 => Strategy::Random,
        3 => Strategy::Sticky(50),
        4 => Strategy::Sticky(80),
        5 => Strategy::Sticky(95),
        6 | 7 => {
            let d = rng.range(1, 3);
            let mut cps = Vec::new();
            for _ in 0..d {
                cps.push(rng.below(400));
            }
            Strategy::Pct { change_points: cps }
        },
        _ => Strategy::Quantum(*rng.pick(&[1u64, 3, 10, 40])),
    };
    let enabled_sites: u32 = if rng.percent(50) {
        (1 << N_SITES) - 1
    } else {
        let mut m: u32 = 0;
        for i in 0..N_SITES {
            if rng.percent(50) {
                m |= 1 << i;
            }
        }
        if m == 0 {
            m = 1 << site_index(Site::NodeChild) | 1 << site_index(Site::NodeChildMut);
        }
        m
    };
    let mut priorities: Vec<u64> = (0..threads as u64).map(|i| 1000 + i).collect();
    // random permutation of priorities
    for i in (1..priorities.len()).rev() {
        let j = rng.usize_below(i + 1);
        priorities.swap(i, j);
    }
    let name = strategy.name();
    (
        SimConfig {
            chooser: Chooser::Seeded {
                rng,
                strategy,
                priorities,
                quantum_left: 0,
            },
            enabled_sites,
        },
        name,
        enabled_sites,
    )
}

pub fn replay_config(list: Vec<u16>, enabled_sites: u32) -> SimConfig {
    SimConfig {
        chooser: Chooser::Replay { list, pos: 0 },
        enabled_sites,
    }
}

/// Runs the bodies as simulated threads under the scheduler. Blocks until all are done.
pub fn simulate(cfg: SimConfig, bodies: Vec<Box<dyn FnOnce() + Send + '_>>) -> SimReport {
    let n = bodies.len();
    {
        let mut guard = STATE.lock().unwrap();
        *guard = Some(SimState {
            status: vec![Status::Parked; n],
            chooser: cfg.chooser,
            choices: Vec::new(),
            steps: 0,
            steps_of: vec![0; n],
            enabled_sites: cfg.enabled_sites,
            site_hits: [0; N_SITES],
            preemptions: 0,
            switches: 0,
            free_run: false,
            aborted: false,
            no_progress: None,
            trace: Fnv::new(),
            max_alive_at_switch: 0,
        });
    }
    TURN.store(MAIN, Ordering::Release);
    ACTIVE.store(true, Ordering::Release);
    let panics: Mutex<Vec<(usize, String)>> = Mutex::new(Vec::new());
    let mut watchdog = false;
    std::thread::scope(|scope| {
        for (i, body) in bodies.into_iter().enumerate() {
            let panics = &panics;
            scope.spawn(move || {
                ME.with(|m| m.set(Some(i)));
                wait_for_turn(i);
                if catch_unwind(AssertUnwindSafe(body)).is_err() {
                    panics
                        .lock()
                        .unwrap()
                        .push((i, verifsim::env::last_panic()));
                }
                yield_at(i, None, true, false);
                ME.with(|m| m.set(None));
            });
        }
        // start: the scheduler picks the first thread
        {
            let mut guard = STATE.lock().unwrap();
            let st = guard.as_mut().unwrap();
            let runnable: Vec<usize> = (0..n).collect();
            let idx = pick(st, &runnable, MAIN, false);
            st.choices.push(idx as u16);
            st.status[runnable[idx]] = Status::Running;
            st.steps += 1;
            drop(guard);
            TURN.store(runnable[idx], Ordering::Release);
        }
        // wait for completion with a real-time watchdog (only trips if library code blocks on a
        // primitive the simulator does not own)
        let start = Instant::now();
        let mut spins = 0u64;
        while TURN.load(Ordering::Acquire) != MAIN {
            spins += 1;
            if spins < 300 {
                std::hint::spin_loop();
            } else {
                std::thread::yield_now();
                if spins % 4096 == 0 && start.elapsed() > Duration::from_secs(WATCHDOG_S) {
                    watchdog = true;
                    // let everything drain without scheduling so that the scope can end
                    if let Some(st) = STATE.lock().unwrap().as_mut() {
                        st.free_run = true;
                    }
                    // release every thread
                    for t in 0..n {
                        TURN.store(t, Ordering::Release);
                        std::thread::sleep(Duration::from_millis(50));
                    }
                    break;
                }
            }
        }
    });
    ACTIVE.store(false, Ordering::Release);
    let st = STATE.lock().unwrap().take().unwrap();
    SimReport {
        choices: st.choices,
        steps: st.steps,
        site_hits: st.site_hits,
        preemptions: st.preemptions,
        switches: st.switches,
        no_progress: st.no_progress,
        trace_digest: st.trace.finish(),
        panics: panics.into_inner().unwrap(),
        watchdog,
    }
}
