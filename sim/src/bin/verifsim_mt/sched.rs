//! Deterministic scheduler over real, parked OS threads. Exactly one simulated thread holds the
//! turn at any instant; at every hook point of the library (feature `verif-hooks`) the running
//! thread calls the scheduler, which draws from the run's schedule stream which runnable thread
//! continues, hands over by an atomic turn variable and parks the caller (spinning). The choice
//! of who runs is never the operating system's. One simulation at a time per process.
//!
//! Library-internal blocking (a `std` lock or condvar the simulator does not own): if the turn
//! holder makes no progress for `STALL_MS`, a monitor marks it *stalled* and hands the turn to
//! another parked thread (a forced switch, recorded in the choice list). When the stalled thread
//! is released by the library primitive it runs on until its next hook, where it parks again.
//! If every live thread is stalled or blocked and nothing moves for `WATCHDOG_S`, that is a
//! deadlock inside the library: reported as such (the stuck threads are leaked).

use evalexpr::verif::Site;
use std::cell::Cell;
use std::panic::{catch_unwind, AssertUnwindSafe};
use std::sync::atomic::{AtomicBool, AtomicU64, AtomicUsize, Ordering};
use std::sync::{Arc, Mutex};
use std::time::{Duration, Instant};
use verifsim::rng::{Fnv, Rng};

pub const MAIN: usize = usize::MAX;
pub const N_SITES: usize = 19;
pub const STEP_CAP: u64 = 250_000;
/// no progress of the turn holder for this long AND its OS thread asleep in the kernel (state `S`
/// in /proc/self/task/<tid>/stat, in four consecutive samples 400 us apart) = it is blocked in a primitive of the library.
/// A turn holder that is merely descheduled stays in state `R` and is never mistaken for stalled.
pub const STALL_US: u64 = 3000;
/// nothing moves at all for this long = deadlock
pub const WATCHDOG_S: u64 = 4;
/// after this many forced switches in one simulation the rest of it runs unscheduled
pub const MAX_STALLS: u64 = 80;
/// forced switches are recorded in the choice list with this bit set
pub const FORCED: u16 = 0x8000;

static TURN: AtomicUsize = AtomicUsize::new(MAIN);
static ACTIVE: AtomicBool = AtomicBool::new(false);
static FREE: AtomicBool = AtomicBool::new(false);
static PROGRESS: AtomicU64 = AtomicU64::new(0);
static STATE: Mutex<Option<SimState>> = Mutex::new(None);
/// OS thread ids of the simulated threads of the current simulation
static TIDS: Mutex<Vec<u64>> = Mutex::new(Vec::new());

/// Kernel thread id of the calling thread (from the /proc/thread-self link; no libc needed).
fn current_tid() -> u64 {
    std::fs::read_link("/proc/thread-self")
        .ok()
        .and_then(|p| p.file_name().and_then(|n| n.to_str()).and_then(|n| n.parse().ok()))
        .unwrap_or(0)
}

/// True if the OS thread is asleep in the kernel (futex wait of a lock or condvar).
fn thread_is_asleep(tid: u64) -> bool {
    if tid == 0 {
        return false;
    }
    match std::fs::read_to_string(format!("/proc/self/task/{}/stat", tid)) {
        // "<pid> (<comm>) <state> ..."; comm may contain spaces, so look behind the last ')'
        Ok(s) => s
            .rfind(')')
            .and_then(|i| s[i + 1..].trim_start().chars().next())
            .map(|c| c == 'S' || c == 'D')
            .unwrap_or(false),
        Err(_) => false,
    }
}

thread_local! {
    static ME: Cell<Option<usize>> = const { Cell::new(None) };
}

/// Marks its simulated thread as finished when it is dropped. It is the FIRST thread-local with a
/// destructor that a simulated thread registers, so it is destroyed LAST (thread-local
/// destructors run in reverse registration order): whatever the thread's other thread-local
/// destructors do (e.g. evaluate an expression during teardown) still runs under the scheduler.
struct DoneGuard {
    id: usize,
    finished: Arc<AtomicUsize>,
}

impl Drop for DoneGuard {
    fn drop(&mut self) {
        yield_at(self.id, None, true, false);
        self.finished.fetch_add(1, Ordering::Release);
    }
}

thread_local! {
    static DONE_GUARD: std::cell::RefCell<Option<DoneGuard>> = const { std::cell::RefCell::new(None) };
}

pub fn site_index(site: Site) -> usize {
    Site::ALL.iter().position(|s| *s == site).unwrap_or(0)
}

pub fn site_name(i: usize) -> String {
    format!("{:?}", Site::ALL[i])
}

#[derive(Clone, Copy, Debug, PartialEq, Eq)]
enum Status {
    Parked,
    Running,
    /// waiting for a harness-level event (mailbox delivery); not runnable until unblocked
    Blocked,
    /// blocked in (or running on after) a primitive of the library; outside the scheduler's
    /// control until it reaches its next hook
    Stalled,
    Done,
}

#[derive(Clone, Debug, PartialEq)]
pub enum Strategy {
    /// uniform over the runnable threads
    Random,
    /// continue the current thread with the given probability (percent)
    Sticky(u64),
    /// PCT-style: random priorities, `d` priority-change points
    Pct { change_points: Vec<u64> },
    /// round robin with a random quantum
    Quantum(u64),
}

impl Strategy {
    pub fn name(&self) -> String {
        match self {
            Strategy::Random => "random".into(),
            Strategy::Sticky(p) => format!("sticky{}", p),
            Strategy::Pct { change_points } => format!("pct{}", change_points.len()),
            Strategy::Quantum(q) => format!("quantum{}", q),
        }
    }
}

pub enum Chooser {
    Seeded { rng: Rng, strategy: Strategy, priorities: Vec<u64>, quantum_left: u64 },
    Replay { list: Vec<u16>, pos: usize },
}

struct SimState {
    status: Vec<Status>,
    /// mirror of TURN, read under the lock
    turn_holder: usize,
    chooser: Chooser,
    choices: Vec<u16>,
    steps: u64,
    steps_of: Vec<u64>,
    enabled_sites: u32,
    site_hits: [u64; N_SITES],
    preemptions: u64,
    switches: u64,
    stalls: u64,
    free_run: bool,
    /// all remaining threads were blocked (their event can no longer arrive): they are released
    /// and must give up
    aborted: bool,
    no_progress: Option<usize>,
    trace: Fnv,
}

#[derive(Clone, Debug, Default)]
pub struct SimReport {
    pub choices: Vec<u16>,
    pub steps: u64,
    pub site_hits: [u64; N_SITES],
    /// switches to another thread while the yielding thread was not finished
    pub preemptions: u64,
    pub switches: u64,
    /// forced switches away from a thread blocked in a library primitive
    pub stalls: u64,
    pub no_progress: Option<usize>,
    /// digest of the (thread, site) sequence: the event log of the schedule
    pub trace_digest: u64,
    pub panics: Vec<(usize, String)>,
    /// every live thread was stuck in library primitives and nothing moved for WATCHDOG_S
    pub deadlock: bool,
}

/// The process-wide hook given to `evalexpr::verif::install`.
pub fn hook(site: Site) {
    if !ACTIVE.load(Ordering::Relaxed) {
        return;
    }
    let me = match ME.with(|m| m.get()) {
        Some(me) => me,
        None => return,
    };
    yield_at(me, Some(site), false, false);
}

/// A yield point of the harness itself.
#[allow(dead_code)]
pub fn harness_yield() {
    if let Some(me) = ME.with(|m| m.get()) {
        yield_at(me, None, false, false);
    }
}

/// Blocks the calling simulated thread until `unblock(me)` is called by another simulated thread
/// (or until the simulation is aborted because nothing else can run).
pub fn block_current() {
    if let Some(me) = ME.with(|m| m.get()) {
        yield_at(me, None, false, true);
    }
}

/// Makes a blocked thread runnable again. Called by the running simulated thread.
pub fn unblock(t: usize) {
    if let Some(st) = STATE.lock().unwrap().as_mut() {
        if t < st.status.len() && st.status[t] == Status::Blocked {
            st.status[t] = Status::Parked;
        }
    }
}

/// True once the scheduler gave up on blocked threads (their event can no longer arrive).
pub fn aborted() -> bool {
    if FREE.load(Ordering::Relaxed) {
        return true;
    }
    STATE.lock().unwrap().as_ref().map(|s| s.aborted).unwrap_or(true)
}

pub fn install_hook() {
    // `install` returns false if a hook is already installed (same function): fine
    let _ = evalexpr::verif::install(hook);
}

fn wait_for_turn(me: usize) {
    let mut spins = 0u32;
    while TURN.load(Ordering::Acquire) != me {
        if FREE.load(Ordering::Relaxed) {
            return;
        }
        spins += 1;
        if spins < 300 {
            std::hint::spin_loop();
        } else {
            std::thread::yield_now();
        }
    }
}

fn pick(st: &mut SimState, runnable: &[usize], me: usize, me_runnable: bool) -> usize {
    let step = st.steps;
    match &mut st.chooser {
        Chooser::Replay { list, pos } => {
            if *pos < list.len() {
                let i = (list[*pos] & !FORCED) as usize;
                *pos += 1;
                i % runnable.len()
            } else {
                0
            }
        },
        Chooser::Seeded { rng, strategy, priorities, quantum_left } => match strategy {
            Strategy::Random => rng.usize_below(runnable.len()),
            Strategy::Sticky(p) => {
                if me_runnable && rng.percent(*p) {
                    runnable.iter().position(|t| *t == me).unwrap()
                } else {
                    rng.usize_below(runnable.len())
                }
            },
            Strategy::Quantum(q) => {
                if me_runnable && *quantum_left > 0 {
                    *quantum_left -= 1;
                    runnable.iter().position(|t| *t == me).unwrap()
                } else {
                    *quantum_left = *q;
                    // next thread after me in id order
                    runnable.iter().position(|t| *t > me && me != MAIN).unwrap_or(0)
                }
            },
            Strategy::Pct { change_points } => {
                if me != MAIN && change_points.contains(&step) {
                    // the running thread drops to the lowest priority
                    let lowest = priorities.iter().copied().min().unwrap_or(0);
                    if me < priorities.len() {
                        priorities[me] = lowest.saturating_sub(1);
                    }
                }
                let mut best = 0;
                for (i, t) in runnable.iter().enumerate() {
                    if priorities[*t] > priorities[runnable[best]] {
                        best = i;
                    }
                }
                best
            },
        },
    }
}

fn yield_at(me: usize, site: Option<Site>, done: bool, block: bool) {
    PROGRESS.fetch_add(1, Ordering::Relaxed);
    let next;
    {
        let mut guard = STATE.lock().unwrap();
        let st = match guard.as_mut() {
            Some(st) => st,
            None => return,
        };
        if st.free_run {
            if done {
                st.status[me] = Status::Done;
            }
            return;
        }
        if st.turn_holder != me {
            // a thread that was stalled in a library primitive and has been released by it: it is
            // outside the scheduler's control until here; now it parks (or is simply finished)
            if done {
                st.status[me] = Status::Done;
                return;
            }
            if let Some(site) = site {
                if st.enabled_sites & (1 << site_index(site)) == 0 {
                    return;
                }
            }
            st.status[me] = if block && !st.aborted {
                Status::Blocked
            } else {
                Status::Parked
            };
            drop(guard);
            wait_for_turn(me);
            return;
        }
        if !done {
            if let Some(site) = site {
                let i = site_index(site);
                if st.enabled_sites & (1 << i) == 0 {
                    return;
                }
                st.site_hits[i] += 1;
                st.trace.u64(((me as u64) << 8) | i as u64);
            } else {
                st.trace.u64(((me as u64) << 8) | 0xff);
            }
            st.steps_of[me] += 1;
            if st.steps_of[me] > STEP_CAP {
                // deterministic, replayable "no progress": stop scheduling, let everything drain
                st.no_progress = Some(me);
                st.free_run = true;
                FREE.store(true, Ordering::Release);
                return;
            }
        }
        st.status[me] = if done {
            Status::Done
        } else if block && !st.aborted {
            Status::Blocked
        } else {
            Status::Parked
        };
        let mut runnable: Vec<usize> = (0..st.status.len())
            .filter(|t| st.status[*t] == Status::Parked)
            .collect();
        if runnable.is_empty() {
            if st.status.iter().any(|s| *s == Status::Stalled) {
                // the only threads left are outside the scheduler's control: let them run on
                // unscheduled (hooks return immediately from now on)
                st.free_run = true;
                FREE.store(true, Ordering::Release);
                st.turn_holder = MAIN;
                drop(guard);
                TURN.store(MAIN, Ordering::Release);
                return;
            }
            if st.status.iter().any(|s| *s == Status::Blocked) {
                // nothing can run any more but some threads still wait: release them to give up
                st.aborted = true;
                for s in st.status.iter_mut() {
                    if *s == Status::Blocked {
                        *s = Status::Parked;
                    }
                }
                runnable = (0..st.status.len())
                    .filter(|t| st.status[*t] == Status::Parked)
                    .collect();
            } else {
                st.turn_holder = MAIN;
                drop(guard);
                TURN.store(MAIN, Ordering::Release);
                return;
            }
        }
        let me_runnable = runnable.contains(&me);
        let idx = pick(st, &runnable, me, me_runnable);
        next = runnable[idx];
        st.choices.push(idx as u16);
        st.status[next] = Status::Running;
        st.turn_holder = next;
        st.steps += 1;
        if next != me {
            st.switches += 1;
            if !done {
                st.preemptions += 1;
            }
        }
    }
    if next != me {
        TURN.store(next, Ordering::Release);
        if !done {
            wait_for_turn(me);
        }
    }
}

pub struct SimConfig {
    pub chooser: Chooser,
    pub enabled_sites: u32,
}

/// Draws strategy and enabled-site subset from the run's schedule stream (swarm style).
pub fn seeded_config(mut rng: Rng, threads: usize) -> (SimConfig, String, u32) {
    let strategy = match rng.below(10) {
        0..=2 => Strategy::Random,
        3 => Strategy::Sticky(50),
        4 => Strategy::Sticky(80),
        5 => Strategy::Sticky(95),
        6 | 7 => {
            let d = rng.range(1, 3);
            let mut cps = Vec::new();
            for _ in 0..d {
                cps.push(rng.below(400));
            }
            Strategy::Pct { change_points: cps }
        },
        _ => Strategy::Quantum(*rng.pick(&[1u64, 3, 10, 40])),
    };
    let enabled_sites: u32 = if rng.percent(50) {
        (1 << N_SITES) - 1
    } else {
        let mut m: u32 = 0;
        for i in 0..N_SITES {
            if rng.percent(50) {
                m |= 1 << i;
            }
        }
        if m == 0 {
            m = 1 << site_index(Site::NodeChild) | 1 << site_index(Site::NodeChildMut);
        }
        m
    };
    let mut priorities: Vec<u64> = (0..threads as u64).map(|i| 1000 + i).collect();
    // random permutation of priorities
    for i in (1..priorities.len()).rev() {
        let j = rng.usize_below(i + 1);
        priorities.swap(i, j);
    }
    let name = strategy.name();
    (
        SimConfig {
            chooser: Chooser::Seeded {
                rng,
                strategy,
                priorities,
                quantum_left: 0,
            },
            enabled_sites,
        },
        name,
        enabled_sites,
    )
}

pub fn replay_config(list: Vec<u16>, enabled_sites: u32) -> SimConfig {
    SimConfig {
        chooser: Chooser::Replay { list, pos: 0 },
        enabled_sites,
    }
}

/// Runs the bodies as simulated threads under the scheduler. Blocks until all are done (or until
/// a deadlock inside the library is diagnosed; the stuck threads are then leaked).
pub fn simulate(cfg: SimConfig, bodies: Vec<Box<dyn FnOnce() + Send + 'static>>) -> SimReport {
    let n = bodies.len();
    {
        let mut guard = STATE.lock().unwrap();
        *guard = Some(SimState {
            status: vec![Status::Parked; n],
            turn_holder: MAIN,
            chooser: cfg.chooser,
            choices: Vec::new(),
            steps: 0,
            steps_of: vec![0; n],
            enabled_sites: cfg.enabled_sites,
            site_hits: [0; N_SITES],
            preemptions: 0,
            switches: 0,
            stalls: 0,
            free_run: false,
            aborted: false,
            no_progress: None,
            trace: Fnv::new(),
        });
    }
    TURN.store(MAIN, Ordering::Release);
    FREE.store(false, Ordering::Release);
    ACTIVE.store(true, Ordering::Release);
    *TIDS.lock().unwrap() = vec![0; n];
    let panics: Arc<Mutex<Vec<(usize, String)>>> = Arc::new(Mutex::new(Vec::new()));
    let finished = Arc::new(AtomicUsize::new(0));
    let mut handles = Vec::new();
    for (i, body) in bodies.into_iter().enumerate() {
        let panics = panics.clone();
        let finished = finished.clone();
        // (generous stacks: some workloads evaluate trees more than a thousand levels deep)
        let builder = std::thread::Builder::new().stack_size(32 << 20);
        handles.push(builder.spawn(move || {
            ME.with(|m| m.set(Some(i)));
            {
                let tid = current_tid();
                let mut t = TIDS.lock().unwrap();
                if i < t.len() {
                    t[i] = tid;
                }
            }
            DONE_GUARD.with(|g| {
                *g.borrow_mut() = Some(DoneGuard {
                    id: i,
                    finished: finished.clone(),
                })
            });
            wait_for_turn(i);
            if catch_unwind(AssertUnwindSafe(body)).is_err() {
                panics
                    .lock()
                    .unwrap()
                    .push((i, verifsim::env::last_panic()));
            }
            // (the thread is marked finished by its DoneGuard, after its other thread-local
            // destructors have run)
        }).expect("spawn simulated thread"));
    }
    // start: the scheduler picks the first thread
    {
        let mut guard = STATE.lock().unwrap();
        let st = guard.as_mut().unwrap();
        let runnable: Vec<usize> = (0..n).collect();
        let idx = pick(st, &runnable, MAIN, false);
        st.choices.push(idx as u16);
        st.status[runnable[idx]] = Status::Running;
        st.turn_holder = runnable[idx];
        st.steps += 1;
        drop(guard);
        TURN.store(runnable[idx], Ordering::Release);
    }
    // monitor: wait for completion; detect a turn holder that is blocked in a library primitive
    let mut deadlock = false;
    let mut last_progress = PROGRESS.load(Ordering::Relaxed);
    let mut last_change = Instant::now();
    let mut spins = 0u64;
    loop {
        // (when the scheduled part is over, free-running threads finish on their own)
        if finished.load(Ordering::Acquire) == n {
            break;
        }
        spins += 1;
        if spins < 300 {
            std::hint::spin_loop();
            continue;
        }
        std::thread::yield_now();
        if spins % 64 != 0 {
            continue;
        }
        let p = PROGRESS.load(Ordering::Relaxed) + finished.load(Ordering::Relaxed) as u64;
        if p != last_progress {
            last_progress = p;
            last_change = Instant::now();
            continue;
        }
        let idle = last_change.elapsed();
        if idle > Duration::from_secs(WATCHDOG_S) {
            deadlock = true;
            break;
        }
        if idle > Duration::from_micros(STALL_US) {
            // is the turn holder asleep in the kernel? (two samples)
            let holder = STATE.lock().unwrap().as_ref().map(|s| s.turn_holder).unwrap_or(MAIN);
            if holder == MAIN {
                continue;
            }
            let tid = TIDS.lock().unwrap().get(holder).copied().unwrap_or(0);
            let mut asleep = thread_is_asleep(tid);
            for _ in 0..3 {
                if !asleep {
                    break;
                }
                std::thread::sleep(Duration::from_micros(400));
                asleep = thread_is_asleep(tid)
                    && PROGRESS.load(Ordering::Relaxed) + finished.load(Ordering::Relaxed) as u64
                        == last_progress;
            }
            if !asleep {
                continue;
            }
            let mut guard = STATE.lock().unwrap();
            let st = guard.as_mut().unwrap();
            let cur = st.turn_holder;
            if cur == holder && !st.free_run && st.status[cur] == Status::Running {
                let runnable: Vec<usize> = (0..n).filter(|t| st.status[*t] == Status::Parked).collect();
                if !runnable.is_empty() {
                    // forced switch: the holder is blocked in a primitive the simulator does not own
                    st.status[cur] = Status::Stalled;
                    st.stalls += 1;
                    if st.stalls > MAX_STALLS {
                        st.free_run = true;
                        st.turn_holder = MAIN;
                        FREE.store(true, Ordering::Release);
                        drop(guard);
                        TURN.store(MAIN, Ordering::Release);
                    } else {
                        let idx = pick(st, &runnable, cur, false);
                        let next = runnable[idx];
                        st.choices.push(idx as u16 | FORCED);
                        st.status[next] = Status::Running;
                        st.turn_holder = next;
                        st.steps += 1;
                        st.switches += 1;
                        st.preemptions += 1;
                        st.trace.u64(((cur as u64) << 8) | 0xfe);
                        drop(guard);
                        TURN.store(next, Ordering::Release);
                    }
                    last_change = Instant::now();
                }
            }
        }
    }
    if !deadlock {
        for h in handles {
            let _ = h.join();
        }
    }
    // (on deadlock the stuck threads are leaked: they stay blocked in the library's primitives)
    ACTIVE.store(false, Ordering::Release);
    FREE.store(true, Ordering::Release);
    let st = STATE.lock().unwrap().take().unwrap();
    let panics = panics.lock().unwrap().clone();
    SimReport {
        choices: st.choices,
        steps: st.steps,
        site_hits: st.site_hits,
        preemptions: st.preemptions,
        switches: st.switches,
        stalls: st.stalls,
        no_progress: st.no_progress,
        trace_digest: st.trace.finish(),
        panics,
        deadlock,
    }
}
