//! Compile-time gate of C15: every public data type of evalexpr (with the default numeric types)
//! must be `Send + Sync`. "Decided by the type checker": this binary compiles iff they are.

use evalexpr::{
    DefaultNumericTypes, EmptyContext, EmptyContextWithBuiltinFunctions, EvalexprError, Function,
    HashMapContext, Node, Operator, Value,
};

fn assert_send_sync<T: Send + Sync>(name: &str) {
    println!("{} is Send + Sync", name);
}

fn main() {
    assert_send_sync::<Node<DefaultNumericTypes>>("Node");
    assert_send_sync::<Value<DefaultNumericTypes>>("Value");
    assert_send_sync::<EvalexprError<DefaultNumericTypes>>("EvalexprError");
    assert_send_sync::<Function<DefaultNumericTypes>>("Function");
    assert_send_sync::<Operator<DefaultNumericTypes>>("Operator");
    assert_send_sync::<HashMapContext<DefaultNumericTypes>>("HashMapContext");
    assert_send_sync::<EmptyContext<DefaultNumericTypes>>("EmptyContext");
    assert_send_sync::<EmptyContextWithBuiltinFunctions<DefaultNumericTypes>>("EmptyContextWithBuiltinFunctions");
}
