//! CLI of the sequential engines (C04 sequential histories, C08, C11).
//!
//!   verifsim check <ID> <quick|thorough>
//!   verifsim worker <ID> <part> --batch-seed S --runs N --stride K --offset W --out FILE
//!   verifsim replay <file>
//!   verifsim show <ID> <run_index>        (print the case of a run)

use verifsim::driver::{harness_error, Args};
use verifsim::json::Json;
use verifsim::{history_engine, seam_engine};

fn main() {
    let argv: Vec<String> = std::env::args().skip(1).collect();
    let exe = std::env::current_exe().unwrap_or_else(|e| harness_error(&e.to_string()));
    if argv.is_empty() {
        harness_error("usage: verifsim check|worker|replay|show ...");
    }
    let args = Args::parse(&argv[1..]);
    let code = match argv[0].as_str() {
        "check" => {
            let id = args.positional.get(0).map(|s| s.as_str()).unwrap_or("");
            let tier = args.positional.get(1).map(|s| s.as_str()).unwrap_or("quick");
            if let Some(p) = seam_engine::prop_from_id(id) {
                seam_engine::check(p, tier, &exe)
            } else if id == "C04" {
                let mt = args.named.get("mt").map(std::path::PathBuf::from);
                history_engine::check(tier, &exe, mt.as_deref())
            } else {
                harness_error(&format!("unknown property {}", id))
            }
        },
        "worker" => {
            let id = args.positional.get(0).map(|s| s.as_str()).unwrap_or("");
            if let Some(p) = seam_engine::prop_from_id(id) {
                seam_engine::worker(p, &args);
                0
            } else if id == "C04" {
                history_engine::worker(&args);
                0
            } else {
                harness_error(&format!("unknown property {}", id))
            }
        },
        "replay" => {
            let path = args.positional.get(0).unwrap_or_else(|| harness_error("replay: missing file"));
            let text = std::fs::read_to_string(path).unwrap_or_else(|e| harness_error(&format!("{}: {}", path, e)));
            let j = Json::parse(&text).unwrap_or_else(|e| harness_error(&format!("{}: {}", path, e)));
            if j.get("process_prefix").is_some() {
                let exe = std::env::current_exe().unwrap_or_else(|e| harness_error(&e.to_string()));
                std::process::exit(verifsim::driver::prefix_replay(&exe, &j));
            }
            match j.get("engine").and_then(|e| e.as_str()) {
                Some("seam") => seam_engine::replay(&j),
                Some("history") => history_engine::replay(&j),
                other => harness_error(&format!("replay: engine {:?} is not served by this binary", other)),
            }
        },
        "digest" => {
            // event-log digest of a batch (no evidence, no violation handling): determinism test
            let id = args.positional.get(0).map(|s| s.as_str()).unwrap_or("");
            let runs: u64 = args.positional.get(1).and_then(|s| s.parse().ok()).unwrap_or(1000);
            let spec = verifsim::driver::BatchSpec {
                prop: id.to_string(),
                part: if id == "C04" { "seq".to_string() } else { "seam".to_string() },
                tier: "quick".to_string(),
                batch_seed: verifsim::driver::batch_seed_from_env(),
                runs,
                workers: verifsim::driver::default_workers(),
                exe: exe.clone(),
            };
            let res = verifsim::driver::run_batch(&spec);
            println!("{:016x} runs={} violations={}", res.out.digest, res.out.runs, res.out.violations.len());
            0
        },
        "show" => {
            let id = args.positional.get(0).map(|s| s.as_str()).unwrap_or("");
            let idx: u64 = args.positional.get(1).and_then(|s| s.parse().ok()).unwrap_or(0);
            let seed = verifsim::driver::run_seed(verifsim::driver::batch_seed_from_env(), idx);
            if seam_engine::prop_from_id(id).is_some() {
                let _ = seed;
                let case = seam_engine::case_of(verifsim::driver::batch_seed_from_env(), idx);
                println!("{}", case.to_json().to_pretty());
            } else if id == "C04" {
                let mut d = verifsim::refint::Delegate::new();
                for l in history_engine::gen_for_seed(seed, &mut d).render() {
                    println!("{}", l);
                }
            }
            0
        },
        other => harness_error(&format!("unknown command {}", other)),
    };
    std::process::exit(code);
}
