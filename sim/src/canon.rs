//! Canonical renderings. Nothing in the harness compares values or errors with `PartialEq`
//! (NaN != NaN, and errors embed values); everything is compared through these strings.
//! Floats are rendered by bit pattern.

use crate::json::Json;
use evalexpr::{EvalexprError, Value};
use std::fmt::Write as _;

pub type V = Value;
pub type E = EvalexprError;
pub type R = Result<V, E>;

pub fn cv(v: &V) -> String {
    let mut s = String::new();
    cv_into(v, &mut s);
    s
}

pub fn cv_into(v: &V, out: &mut String) {
    match v {
        Value::String(s) => {
            let _ = write!(out, "S{:?}", s);
        },
        Value::Float(f) => {
            if f.is_nan() {
                // sign and payload of a NaN are not guaranteed by the float semantics (Miri
                // randomises them on purpose): all NaNs are one value here
                out.push_str("F[NaN]");
            } else {
                let _ = write!(out, "F{:016x}[{:?}]", f.to_bits(), f);
            }
        },
        Value::Int(i) => {
            let _ = write!(out, "I{}", i);
        },
        Value::Boolean(b) => out.push_str(if *b { "Btrue" } else { "Bfalse" }),
        Value::Tuple(t) => {
            out.push_str("T(");
            for (i, x) in t.iter().enumerate() {
                if i > 0 {
                    out.push(',');
                }
                cv_into(x, out);
            }
            out.push(')');
        },
        Value::Empty => out.push('E'),
    }
}

pub fn ce(e: &E) -> String {
    use EvalexprError::*;
    match e {
        ExpectedString { actual } => format!("ExpectedString({})", cv(actual)),
        ExpectedInt { actual } => format!("ExpectedInt({})", cv(actual)),
        ExpectedFloat { actual } => format!("ExpectedFloat({})", cv(actual)),
        ExpectedNumber { actual } => format!("ExpectedNumber({})", cv(actual)),
        ExpectedNumberOrString { actual } => format!("ExpectedNumberOrString({})", cv(actual)),
        ExpectedBoolean { actual } => format!("ExpectedBoolean({})", cv(actual)),
        ExpectedTuple { actual } => format!("ExpectedTuple({})", cv(actual)),
        ExpectedFixedLengthTuple {
            expected_length,
            actual,
        } => format!("ExpectedFixedLengthTuple({},{})", expected_length, cv(actual)),
        ExpectedRangedLengthTuple {
            expected_length,
            actual,
        } => format!(
            "ExpectedRangedLengthTuple({}..={},{})",
            expected_length.start(),
            expected_length.end(),
            cv(actual)
        ),
        ExpectedEmpty { actual } => format!("ExpectedEmpty({})", cv(actual)),
        TypeError { expected, actual } => format!("TypeError({:?},{})", expected, cv(actual)),
        AdditionError { augend, addend } => {
            format!("AdditionError({},{})", cv(augend), cv(addend))
        },
        SubtractionError {
            minuend,
            subtrahend,
        } => format!("SubtractionError({},{})", cv(minuend), cv(subtrahend)),
        NegationError { argument } => format!("NegationError({})", cv(argument)),
        MultiplicationError {
            multiplicand,
            multiplier,
        } => format!(
            "MultiplicationError({},{})",
            cv(multiplicand),
            cv(multiplier)
        ),
        DivisionError { dividend, divisor } => {
            format!("DivisionError({},{})", cv(dividend), cv(divisor))
        },
        ModulationError { dividend, divisor } => {
            format!("ModulationError({},{})", cv(dividend), cv(divisor))
        },
        other => format!("{:?}", other),
    }
}

pub fn cr(r: &R) -> String {
    match r {
        Ok(v) => format!("Ok({})", cv(v)),
        Err(e) => format!("Err({})", ce(e)),
    }
}

/// Type tag of a value as a short string.
pub fn tag(v: &V) -> &'static str {
    match v {
        Value::String(_) => "String",
        Value::Float(_) => "Float",
        Value::Int(_) => "Int",
        Value::Boolean(_) => "Boolean",
        Value::Tuple(_) => "Tuple",
        Value::Empty => "Empty",
    }
}

/// The error the type-safe context must return when `new` is assigned over `old` of another type.
pub fn expected_type_error(old: &V, new: V) -> E {
    match old {
        Value::String(_) => E::expected_string(new),
        Value::Float(_) => E::expected_float(new),
        Value::Int(_) => E::expected_int(new),
        Value::Boolean(_) => E::expected_boolean(new),
        Value::Tuple(_) => E::expected_tuple(new),
        Value::Empty => E::expected_empty(new),
    }
}

// ---- JSON encoding of values (replay files) ----

pub fn value_to_json(v: &V) -> Json {
    match v {
        Value::String(s) => Json::obj().with("s", Json::s(s.clone())),
        Value::Float(f) => Json::obj()
            .with("f", Json::s(format!("{:016x}", f.to_bits())))
            .with("approx", Json::s(format!("{:?}", f))),
        Value::Int(i) => Json::obj().with("i", Json::i(*i)),
        Value::Boolean(b) => Json::obj().with("b", Json::Bool(*b)),
        Value::Tuple(t) => Json::obj().with("t", Json::Arr(t.iter().map(value_to_json).collect())),
        Value::Empty => Json::obj().with("e", Json::Null),
    }
}

pub fn value_from_json(j: &Json) -> Result<V, String> {
    if let Some(s) = j.get("s") {
        return Ok(Value::String(
            s.as_str().ok_or("bad string value")?.to_string(),
        ));
    }
    if let Some(f) = j.get("f") {
        let bits = u64::from_str_radix(f.as_str().ok_or("bad float value")?, 16)
            .map_err(|e| e.to_string())?;
        return Ok(Value::Float(f64::from_bits(bits)));
    }
    if let Some(i) = j.get("i") {
        return Ok(Value::Int(i.as_i64().ok_or("bad int value")?));
    }
    if let Some(b) = j.get("b") {
        return Ok(Value::Boolean(b.as_bool().ok_or("bad bool value")?));
    }
    if let Some(t) = j.get("t") {
        let mut v = Vec::new();
        for x in t.as_arr().ok_or("bad tuple value")? {
            v.push(value_from_json(x)?);
        }
        return Ok(Value::Tuple(v));
    }
    if j.get("e").is_some() {
        return Ok(Value::Empty);
    }
    Err(format!("unrecognised value {}", j.to_compact()))
}
