//! Seeded, type-directed program generator. Operands are drawn typed (most operator applications
//! get operands the operator accepts) so that type errors do not end most programs early and mask
//! ordering effects; deliberately failing leaves and ill-typed operands are mixed in.

use crate::canon::V;
use crate::env::{
    Setup, EXTRA_VAR_NAMES, FN_NAMES, LONG_UNBOUND_NAME, SHADOW_NAMES, UNBOUND_NAME, UNKNOWN_FN,
    VAR_NAMES,
};
use crate::prog::{AOp, Bin, Expr, Un, ALL_AOP};
use crate::rng::Rng;
use evalexpr::Value;
use std::collections::BTreeMap;

#[derive(Clone, Copy, Debug, PartialEq, Eq, PartialOrd, Ord)]
pub enum Ty {
    Int,
    Float,
    Bool,
    Str,
    Tuple,
    Empty,
}

pub const ALL_TY: [Ty; 6] = [Ty::Int, Ty::Float, Ty::Bool, Ty::Str, Ty::Tuple, Ty::Empty];

pub fn ty_of(v: &V) -> Ty {
    match v {
        Value::Int(_) => Ty::Int,
        Value::Float(_) => Ty::Float,
        Value::Boolean(_) => Ty::Bool,
        Value::String(_) => Ty::Str,
        Value::Tuple(_) => Ty::Tuple,
        Value::Empty => Ty::Empty,
    }
}

/// The literal pool (no NaN, no i64::MIN).
pub fn pool(ty: Ty) -> Vec<V> {
    match ty {
        Ty::Int => vec![
            Value::Int(0),
            Value::Int(1),
            Value::Int(2),
            Value::Int(-3),
            Value::Int(7),
            Value::Int(i64::MAX),
        ],
        Ty::Float => vec![
            Value::Float(1.5),
            Value::Float(-0.25),
            Value::Float(2.0),
            Value::Float(0.0),
            Value::Float(-0.0),
        ],
        Ty::Bool => vec![Value::Boolean(true), Value::Boolean(false)],
        Ty::Str => vec![
            Value::String(String::new()),
            Value::String("s".into()),
            Value::String("äb".into()),
            Value::String("a b".into()),
            // comment markers inside a string literal are text
            Value::String("p//q /* r */".into()),
            // ... and so is a Windows line ending
            Value::String("x\r\ny".into()),
        ],
        Ty::Tuple => vec![
            Value::Tuple(vec![Value::Int(1), Value::Int(2)]),
            Value::Tuple(vec![Value::Int(1), Value::Int(2), Value::Int(3)]),
            Value::Tuple(vec![Value::Empty, Value::String("s".into())]),
        ],
        Ty::Empty => vec![Value::Empty],
    }
}

pub fn any_value(rng: &mut Rng) -> V {
    let ty = *rng.pick(&ALL_TY);
    let p = pool(ty);
    rng.pick(&p).clone()
}

/// Values that only the API can put into a context (not writable as literals): NaN, infinities,
/// the empty and the one-element tuple, tuples holding NaN. Mixed into initial contexts and
/// `set_value` operations.
pub fn any_value_ext(rng: &mut Rng) -> V {
    if rng.percent(85) {
        return any_value(rng);
    }
    match rng.below(8) {
        0 => Value::Float(f64::NAN),
        1 => Value::Float(f64::INFINITY),
        2 => Value::Float(-0.0),
        3 => Value::Float(0.0),
        4 => Value::Tuple(vec![]),
        5 => Value::Tuple(vec![Value::Float(f64::NAN), Value::Int(1)]),
        6 => Value::Tuple(vec![Value::Int(7)]),
        _ => Value::Float(f64::NEG_INFINITY),
    }
}

#[derive(Clone, Debug)]
pub struct GenCfg {
    /// node budget of a whole program
    pub budget: usize,
    /// maximal nesting depth
    pub max_depth: usize,
    /// percent of operands drawn with the type the operator accepts
    pub well_typed_pct: u64,
    /// percent of leaves that are deliberately failing sub-expressions
    pub fail_leaf_pct: u64,
    /// use the uncontroversial builtins (typeof, len, min, max, if)
    pub builtins: bool,
    /// bias budget splits so that one child gets almost everything (deep, spiny trees)
    pub spiny: bool,
    /// statements at top level (1 = a single expression)
    pub max_statements: usize,
    /// percent of statements that are assignments
    pub assign_pct: u64,
    /// allow assignments / sub-chains nested inside operands (off for C04's single-statement
    /// programs, whose outcome must not depend on evaluation order)
    pub nested_statements: bool,
}

pub struct Gen<'a> {
    pub rng: &'a mut Rng,
    pub cfg: GenCfg,
    /// types of the variables known to be bound at this point of the (left-to-right) generation
    pub tenv: BTreeMap<String, Ty>,
    /// variable names programs may use
    pub names: Vec<String>,
    /// sentinel behaviour -> names of registered functions that have it
    pub fn_names: BTreeMap<String, Vec<String>>,
}

impl<'a> Gen<'a> {
    pub fn new(rng: &'a mut Rng, cfg: GenCfg, setup: &Setup) -> Self {
        let tenv = setup
            .vars
            .iter()
            .map(|(n, v)| (n.clone(), ty_of(v)))
            .collect();
        let mut fn_names: BTreeMap<String, Vec<String>> = BTreeMap::new();
        for f in &setup.fns {
            fn_names.entry(f.clone()).or_default().push(f.clone());
        }
        Gen {
            rng,
            cfg,
            tenv,
            names: VAR_NAMES.iter().map(|s| s.to_string()).collect(),
            fn_names,
        }
    }

    /// A call of a registered function with sentinel behaviour `behaviour`; if none is registered,
    /// mostly the argument alone for `f` / a literal of the result type otherwise (and sometimes
    /// the call anyway, which then fails with FunctionIdentifierNotFound).
    fn call_behaviour(&mut self, behaviour: &str, arg: Option<Expr>, result: Ty) -> Expr {
        let names = self.fn_names.get(behaviour).cloned().unwrap_or_default();
        if names.is_empty() {
            if self.rng.percent(90) {
                return match (behaviour, arg) {
                    ("f", Some(a)) => a,
                    _ => self.lit(result),
                };
            }
            return Expr::Call(behaviour.to_string(), arg.map(Box::new));
        }
        let n = self.rng.pick(&names).clone();
        Expr::Call(n, arg.map(Box::new))
    }

    /// A whole program: a statement chain or a single expression.
    pub fn program(&mut self) -> Expr {
        let n = self.rng.range(1, self.cfg.max_statements.max(1));
        let budget = self.cfg.budget.max(1);
        if n == 1 {
            return self.statement(budget, self.cfg.max_depth);
        }
        let shares = self.split(budget.saturating_sub(1), n);
        let mut v = Vec::new();
        for s in shares {
            v.push(self.statement(s.max(1), self.cfg.max_depth.saturating_sub(1)));
        }
        Expr::Chain(v)
    }

    fn statement(&mut self, budget: usize, depth: usize) -> Expr {
        let e = self.statement_plain(budget, depth);
        if self.cfg.nested_statements && self.rng.percent(2) {
            return self.hand_edited(e);
        }
        e
    }

    /// A tree somebody edited through the public accessors: further children below the
    /// statement's root wrapper, below a leaf, or as a third operand of an assignment.
    fn hand_edited(&mut self, e: Expr) -> Expr {
        let mut extras = Vec::new();
        for _ in 0..self.rng.range(1, 2) {
            let x = match self.rng.below(5) {
                0 => self.failing_leaf(),
                1 => self.assignment(2, 1),
                // a write identifier in value position: its name as a string, on both paths
                4 => Expr::WriteName(self.name()),
                _ => {
                    let t = self.any_ty();
                    self.expr(t, 2, 1)
                },
            };
            extras.push(x);
        }
        match self.rng.below(3) {
            0 => Expr::Extra(true, Box::new(e), extras),
            1 => {
                let t = self.any_ty();
                let leaf = self.leaf(t);
                Expr::Chain(vec![e, Expr::Extra(false, Box::new(leaf), extras)])
            },
            _ => {
                let a = self.assignment(2, 1);
                Expr::Chain(vec![e, Expr::Extra(false, Box::new(a), extras)])
            },
        }
    }

    fn statement_plain(&mut self, budget: usize, depth: usize) -> Expr {
        if self.rng.percent(self.cfg.assign_pct) {
            self.assignment(budget, depth)
        } else {
            let ty = *self.rng.pick(&ALL_TY);
            self.expr(ty, budget, depth)
        }
    }

    fn name(&mut self) -> String {
        if self.rng.percent(6) {
            return self.rng.pick(&EXTRA_VAR_NAMES).to_string();
        }
        let names = self.names.clone();
        self.rng.pick(&names).clone()
    }

    fn other_ty(&mut self, ty: Ty) -> Ty {
        loop {
            let t = *self.rng.pick(&ALL_TY);
            if t != ty {
                return t;
            }
        }
    }

    /// The operand type actually generated when `ty` is wanted.
    fn operand_ty(&mut self, ty: Ty) -> Ty {
        if self.rng.percent(self.cfg.well_typed_pct) {
            ty
        } else {
            self.other_ty(ty)
        }
    }

    fn assignment(&mut self, budget: usize, depth: usize) -> Expr {
        let name = self.name();
        let bound = self.tenv.get(&name).copied();
        let mut op = if self.rng.percent(35) {
            AOp::Assign
        } else {
            *self.rng.pick(&ALL_AOP)
        };
        if op != AOp::Assign && self.rng.percent(self.cfg.well_typed_pct) {
            // pick an operator-assignment the variable's current type supports
            op = match bound {
                None => AOp::Assign,
                Some(Ty::Int) => *self
                    .rng
                    .pick(&[AOp::Add, AOp::Sub, AOp::Mul, AOp::Div, AOp::Mod]),
                Some(Ty::Float) => *self
                    .rng
                    .pick(&[AOp::Add, AOp::Sub, AOp::Mul, AOp::Div, AOp::Mod, AOp::Exp]),
                Some(Ty::Bool) => *self.rng.pick(&[AOp::And, AOp::Or]),
                Some(Ty::Str) => AOp::Add,
                Some(Ty::Tuple) | Some(Ty::Empty) => AOp::Assign,
            };
        }
        let sub_budget = budget.saturating_sub(2).max(1);
        let sub_depth = depth.saturating_sub(1);
        if self.cfg.nested_statements && self.rng.percent(10) {
            // computed target: a string literal, a call of the name-returning sentinel, or a
            // sub-chain ending in a string
            let target = match self.rng.below(6) {
                // what the tree builder makes of `"" + a = e`, `-a = e`, `1 + a = e`: the last
                // identifier before the assignment sign is a write identifier (its name as a
                // string) below another operator
                5 => match self.rng.below(4) {
                    0 => Expr::Bin(
                        Bin::Add,
                        Box::new(Expr::Lit(Value::String(String::new()))),
                        Box::new(Expr::WriteName(name.clone())),
                    ),
                    1 => Expr::Un(Un::Neg, Box::new(Expr::WriteName(name.clone()))),
                    2 => Expr::Bin(
                        Bin::Add,
                        Box::new(Expr::Lit(Value::Int(1))),
                        Box::new(Expr::WriteName(name.clone())),
                    ),
                    _ => Expr::Tuple(vec![Expr::WriteName(name.clone()), Expr::Lit(Value::Int(1))]),
                },
                // not a name at all (`5 = e`): the operands are still evaluated first
                4 => match self.rng.below(3) {
                    0 => Expr::Lit(Value::Int(5)),
                    1 => Expr::Lit(Value::Boolean(true)),
                    _ => Expr::Lit(Value::Float(1.5)),
                },
                0 => Expr::Lit(Value::String(name.clone())),
                1 | 2 => {
                    let t = self.any_ty();
                    let a = self.leaf(t);
                    self.call_behaviour("n", Some(a), Ty::Str)
                },
                _ => Expr::Chain(vec![
                    self.statement(2, 1),
                    Expr::Lit(Value::String(name.clone())),
                ]),
            };
            let ty = self.any_ty();
            let rhs = self.expr(ty, sub_budget, sub_depth);
            return Expr::AssignTo(op, Box::new(target), Box::new(rhs));
        }
        if self.rng.percent(4) {
            // a literal as target (no evaluation order involved): the name as a string constant,
            // the empty name, or not a name at all (`5 = e` must fail with ExpectedString)
            let target = match self.rng.below(5) {
                0 | 1 => Expr::Lit(Value::String(name.clone())),
                2 => Expr::Lit(Value::String(String::new())),
                3 => Expr::Lit(Value::Int(5)),
                _ => Expr::Lit(Value::Boolean(true)),
            };
            let ty = self.any_ty();
            let rhs = self.expr(ty, sub_budget, sub_depth);
            return Expr::AssignTo(op, Box::new(target), Box::new(rhs));
        }
        match op {
            AOp::Assign => {
                let ty = match bound {
                    Some(t) => self.operand_ty(t),
                    None => *self.rng.pick(&ALL_TY),
                };
                let rhs = self.expr(ty, sub_budget, sub_depth);
                if bound.is_none() {
                    self.tenv.insert(name.clone(), ty);
                }
                Expr::Assign(op, name, Box::new(rhs))
            },
            _ => {
                // operand type the plain operator accepts together with the variable's type
                let want = match (op, bound) {
                    (AOp::And | AOp::Or, _) => Ty::Bool,
                    (AOp::Add, Some(Ty::Str)) => Ty::Str,
                    (_, Some(Ty::Float)) => {
                        if self.rng.percent(50) {
                            Ty::Float
                        } else {
                            Ty::Int
                        }
                    },
                    _ => Ty::Int,
                };
                let ty = self.operand_ty(want);
                let rhs = self.expr(ty, sub_budget, sub_depth);
                Expr::Assign(op, name, Box::new(rhs))
            },
        }
    }

    fn split(&mut self, budget: usize, n: usize) -> Vec<usize> {
        let mut shares = vec![0usize; n];
        if n == 0 {
            return shares;
        }
        if self.cfg.spiny {
            // one child gets almost everything
            let big = self.rng.usize_below(n);
            for (i, s) in shares.iter_mut().enumerate() {
                *s = if i == big { budget.saturating_sub(n - 1) } else { 1 };
            }
        } else {
            for _ in 0..budget {
                let i = self.rng.usize_below(n);
                shares[i] += 1;
            }
        }
        shares
    }

    fn lit(&mut self, ty: Ty) -> Expr {
        if ty == Ty::Int {
            // boundary values (0 as a divisor, i64::MAX as an overflow trigger) are kept rare
            let v = match self.rng.below(40) {
                // neighbours above 2^53 (distinct integers that round to the same f64)
                20 => Value::Int(i64::MAX - 1),
                21 => Value::Int(9_007_199_254_740_993),
                22 => Value::Int(9_007_199_254_740_992),
                23..=39 => {
                    let p = pool(Ty::Int);
                    self.rng.pick(&p[1..5]).clone()
                },
                0 => Value::Int(0),
                1 => Value::Int(i64::MAX),
                2..=7 => Value::Int(1),
                8..=12 => Value::Int(2),
                13..=15 => Value::Int(-3),
                _ => Value::Int(7),
            };
            return Expr::Lit(v);
        }
        let p = pool(ty);
        Expr::Lit(self.rng.pick(&p).clone())
    }

    fn failing_leaf(&mut self) -> Expr {
        match self.rng.below(9) {
            6 => Expr::Read(LONG_UNBOUND_NAME.to_string()),
            7 => Expr::Call(
                LONG_UNBOUND_NAME.to_string(),
                Some(Box::new(Expr::Lit(Value::Int(1)))),
            ),
            8 => {
                // an unknown function whose argument has effects (they happen before the failure)
                let t = self.any_ty();
                let arg = self.expr(t, 3, 1);
                Expr::Call(UNKNOWN_FN.to_string(), Some(Box::new(arg)))
            },
            0 => Expr::Read(UNBOUND_NAME.to_string()),
            1 => Expr::Bin(
                Bin::Div,
                Box::new(Expr::Lit(Value::Int(1))),
                Box::new(Expr::Lit(Value::Int(0))),
            ),
            2 => Expr::Bin(
                Bin::Add,
                Box::new(Expr::Lit(Value::Int(i64::MAX))),
                Box::new(Expr::Lit(Value::Int(1))),
            ),
            3 => Expr::Call(
                UNKNOWN_FN.to_string(),
                Some(Box::new(Expr::Lit(Value::Int(1)))),
            ),
            4 => Expr::Bin(
                Bin::Add,
                Box::new(Expr::Lit(Value::Boolean(true))),
                Box::new(Expr::Lit(Value::Int(1))),
            ),
            _ => Expr::Bin(
                Bin::Mod,
                Box::new(Expr::Lit(Value::Int(7))),
                Box::new(Expr::Lit(Value::Int(0))),
            ),
        }
    }

    fn leaf(&mut self, ty: Ty) -> Expr {
        if self.rng.percent(self.cfg.fail_leaf_pct) {
            return self.failing_leaf();
        }
        // a read of a variable of the right type, if there is one
        let candidates: Vec<String> = self
            .tenv
            .iter()
            .filter(|(_, t)| **t == ty)
            .map(|(n, _)| n.clone())
            .collect();
        if !candidates.is_empty() && self.rng.percent(45) {
            return Expr::Read(self.rng.pick(&candidates).clone());
        }
        if self.rng.percent(1) {
            // a read of some variable, whatever its type or binding
            return Expr::Read(self.name());
        }
        if ty == Ty::Empty && self.rng.percent(40) {
            return self.call_behaviour("f", None, Ty::Empty);
        }
        self.lit(ty)
    }

    fn num_ty(&mut self) -> Ty {
        if self.rng.percent(70) {
            Ty::Int
        } else {
            Ty::Float
        }
    }

    fn any_ty(&mut self) -> Ty {
        *self.rng.pick(&ALL_TY)
    }

    fn sub(&mut self, want: Ty, budget: usize, depth: usize) -> Box<Expr> {
        let ty = self.operand_ty(want);
        Box::new(self.expr(ty, budget, depth))
    }

    fn call(&mut self, f: &str, arg: Expr) -> Expr {
        Expr::Call(f.to_string(), Some(Box::new(arg)))
    }

    /// A sub-chain `(stmt; ...; value)` whose last element has type `ty`.
    fn chain_ending_in(&mut self, ty: Ty, budget: usize, depth: usize) -> Expr {
        let n = self.rng.range(2, 3);
        let shares = self.split(budget.saturating_sub(1), n);
        let mut v = Vec::new();
        for (i, s) in shares.iter().enumerate() {
            if i + 1 == n {
                v.push(self.expr(ty, (*s).max(1), depth));
            } else {
                v.push(self.statement((*s).max(1), depth));
            }
        }
        Expr::Chain(v)
    }

    /// An expression that evaluates (if nothing fails) to a value of type `ty`.
    pub fn expr(&mut self, ty: Ty, budget: usize, depth: usize) -> Expr {
        if budget <= 1 || depth == 0 {
            return self.leaf(ty);
        }
        let d = depth - 1;
        let b = budget - 1;
        // productions common to all types
        let common = self.rng.below(100);
        if common < 8 && self.cfg.nested_statements {
            return self.chain_ending_in(ty, budget, d);
        }
        if common < 16 {
            // identity function keeps the type
            let arg = self.sub(ty, b, d);
            return self.call_behaviour("f", Some(*arg), ty);
        }
        // productions that end the descent are skipped while a deep tree still has budget to spend
        let descending = self.cfg.spiny && budget > 24;
        if !descending && common >= 26 && common < 31 && matches!(ty, Ty::Int | Ty::Float | Ty::Str | Ty::Bool) {
            // a flat, left-leaning chain `t1 op t2 op ... op tn` of directly nested binary nodes;
            // half of them use one operator throughout; terms are sometimes ill-typed, failing or
            // assigning (two faults in one chain: which one wins?)
            let n = self.rng.range(3, 14);
            let ops: &[Bin] = match ty {
                Ty::Int => &[Bin::Add, Bin::Sub, Bin::Mul],
                Ty::Float => &[Bin::Add, Bin::Sub, Bin::Mul, Bin::Div],
                Ty::Str => &[Bin::Add],
                _ => &[Bin::And, Bin::Or],
            };
            let single = if self.rng.percent(50) { Some(*self.rng.pick(ops)) } else { None };
            let mut acc = self.expr(ty, 2, 1);
            for _ in 1..n {
                let op = single.unwrap_or_else(|| *self.rng.pick(ops));
                let t = match self.rng.below(100) {
                    0..=7 => Box::new(self.failing_leaf()),
                    8..=13 if self.cfg.nested_statements => {
                        let name = self.name();
                        let v = self.lit(ty);
                        Box::new(Expr::Chain(vec![
                            Expr::Assign(AOp::Assign, name, Box::new(v)),
                            self.lit(ty),
                        ]))
                    },
                    14..=21 => {
                        let wrong = self.other_ty(ty);
                        Box::new(self.expr(wrong, 2, 1))
                    },
                    _ => {
                        let term_budget = if self.rng.percent(70) { 2 } else { 3 };
                        self.sub(ty, term_budget, 1)
                    },
                };
                acc = Expr::Bin(op, Box::new(acc), t);
            }
            return acc;
        }
        if !descending && common == 31 {
            // a dangling binary operator: the present operand must still be evaluated first
            let op = *self.rng.pick(&crate::prog::ALL_BIN);
            let t = self.any_ty();
            let l = self.expr(t, b, d);
            return Expr::Dangling(op, Box::new(l));
        }
        if !descending && common == 32 && ty == Ty::Float {
            // NaN / infinity arise only from operators
            let z = Box::new(Expr::Lit(Value::Float(0.0)));
            let num = if self.rng.percent(50) { z.clone() } else { Box::new(self.lit(Ty::Float)) };
            return Expr::Bin(Bin::Div, num, z);
        }
        if !descending && common >= 23 && common < 26 {
            // the same effectful expression twice as sibling operands (`e op e`, `(e, e)`): each
            // occurrence must be evaluated
            let e = match ty {
                Ty::Int | Ty::Float | Ty::Str => Some((Bin::Add, ty)),
                Ty::Bool => Some((if self.rng.percent(50) { Bin::And } else { Bin::Eq }, ty)),
                _ => None,
            };
            if let Some((op, t)) = e {
                let operand_ty = if op == Bin::Eq { self.any_ty() } else { t };
                let x = self.expr(operand_ty, (b / 2).max(1), d);
                return Expr::Bin(op, Box::new(x.clone()), Box::new(x));
            } else if ty == Ty::Tuple {
                let t = self.any_ty();
                let x = self.expr(t, (b / 2).max(1), d);
                return Expr::Tuple(vec![x.clone(), x]);
            }
        }
        if common < 23 && common >= 20 && self.cfg.builtins {
            match ty {
                Ty::Str => {
                    let t = self.any_ty();
                    let a = self.expr(t, b, d);
                    return self.call("str::from", a);
                },
                Ty::Int | Ty::Float => {
                    let a = self.sub(ty, b, d);
                    return self.call("math::abs", *a);
                },
                _ => {},
            }
        }
        if common < 20 && self.cfg.builtins {
            // if(cond, x, y): both branches are evaluated
            let s = self.split(b.saturating_sub(1), 3);
            let c = self.sub(Ty::Bool, s[0].max(1), d);
            let x = self.sub(ty, s[1].max(1), d);
            let y = self.sub(ty, s[2].max(1), d);
            return self.call("if", Expr::Tuple(vec![*c, *x, *y]));
        }
        match ty {
            Ty::Int => match self.rng.below(10) {
                0..=4 => {
                    let op = *self
                        .rng
                        .pick(&[Bin::Add, Bin::Sub, Bin::Mul, Bin::Div, Bin::Mod]);
                    let s = self.split(b, 2);
                    let l = self.sub(Ty::Int, s[0].max(1), d);
                    let r = self.sub(Ty::Int, s[1].max(1), d);
                    Expr::Bin(op, l, r)
                },
                5 => Expr::Un(Un::Neg, self.sub(Ty::Int, b, d)),
                6 | 7 => {
                    let t = self.any_ty();
                    let a = self.expr(t, b, d);
                    self.call_behaviour("g", Some(a), Ty::Int)
                },
                8 if self.cfg.builtins => {
                    let t = if self.rng.percent(50) { Ty::Str } else { Ty::Tuple };
                    let a = self.sub(t, b, d);
                    self.call("len", *a)
                },
                9 if self.cfg.builtins => {
                    let s = self.split(b.saturating_sub(1), 2);
                    let l = self.sub(Ty::Int, s[0].max(1), d);
                    let r = self.sub(Ty::Int, s[1].max(1), d);
                    let f = if self.rng.percent(50) { "max" } else { "min" };
                    self.call(f, Expr::Tuple(vec![*l, *r]))
                },
                _ => {
                    let t = self.any_ty();
                    let a = self.expr(t, b, d);
                    self.call_behaviour("g", Some(a), Ty::Int)
                },
            },
            Ty::Float => match self.rng.below(4) {
                0 => {
                    let s = self.split(b, 2);
                    let lt = self.num_ty();
                    let rt = self.num_ty();
                    let l = self.sub(lt, s[0].max(1), d);
                    let r = self.sub(rt, s[1].max(1), d);
                    Expr::Bin(Bin::Exp, l, r)
                },
                1 => Expr::Un(Un::Neg, self.sub(Ty::Float, b, d)),
                _ => {
                    let op = *self
                        .rng
                        .pick(&[Bin::Add, Bin::Sub, Bin::Mul, Bin::Div, Bin::Mod]);
                    let s = self.split(b, 2);
                    let float_left = self.rng.percent(50);
                    let (lt, rt) = if float_left {
                        (Ty::Float, self.num_ty())
                    } else {
                        (self.num_ty(), Ty::Float)
                    };
                    let l = self.sub(lt, s[0].max(1), d);
                    let r = self.sub(rt, s[1].max(1), d);
                    Expr::Bin(op, l, r)
                },
            },
            Ty::Bool if !descending && self.rng.percent(8) => {
                // comparisons (and their negations) with operands that may be NaN, an infinity or
                // a signed zero: `!(x < y)` is not `x >= y`, `v != v` is the NaN test
                let nanish = |g: &mut Self| -> Expr {
                    let floats: Vec<String> = g
                        .tenv
                        .iter()
                        .filter(|(_, t)| **t == Ty::Float)
                        .map(|(n, _)| n.clone())
                        .collect();
                    match g.rng.below(4) {
                        0 if !floats.is_empty() => Expr::Read(g.rng.pick(&floats).clone()),
                        1 => Expr::Bin(
                            Bin::Div,
                            Box::new(Expr::Lit(Value::Float(0.0))),
                            Box::new(Expr::Lit(Value::Float(0.0))),
                        ),
                        2 => Expr::Bin(
                            Bin::Div,
                            Box::new(Expr::Lit(Value::Float(1.5))),
                            Box::new(Expr::Lit(Value::Float(0.0))),
                        ),
                        _ => g.lit(Ty::Float),
                    }
                };
                // ... or neighbouring integers beyond 2^53 (equal as f64, distinct as i64)
                let big = [
                    i64::MAX,
                    i64::MAX - 1,
                    9_007_199_254_740_992,
                    9_007_199_254_740_993,
                ];
                let (l, r) = if self.rng.percent(30) {
                    let i = self.rng.usize_below(big.len());
                    let j = i ^ 1;
                    (Expr::Lit(Value::Int(big[i])), Expr::Lit(Value::Int(big[j])))
                } else {
                    let l = nanish(self);
                    let r = if self.rng.percent(30) { l.clone() } else { nanish(self) };
                    (l, r)
                };
                let op = *self
                    .rng
                    .pick(&[Bin::Lt, Bin::Gt, Bin::Leq, Bin::Geq, Bin::Eq, Bin::Neq]);
                let cmp = Expr::Bin(op, Box::new(l), Box::new(r));
                if self.rng.percent(50) {
                    Expr::Un(Un::Not, Box::new(cmp))
                } else {
                    cmp
                }
            },
            Ty::Bool => match self.rng.below(10) {
                0..=3 => {
                    let op = if self.rng.percent(50) { Bin::And } else { Bin::Or };
                    let s = self.split(b, 2);
                    let l = self.sub(Ty::Bool, s[0].max(1), d);
                    let r = self.sub(Ty::Bool, s[1].max(1), d);
                    Expr::Bin(op, l, r)
                },
                4 => Expr::Un(Un::Not, self.sub(Ty::Bool, b, d)),
                5 | 6 => {
                    let op = *self.rng.pick(&[Bin::Gt, Bin::Lt, Bin::Geq, Bin::Leq]);
                    let t = match self.rng.below(3) {
                        0 => Ty::Str,
                        1 => Ty::Float,
                        _ => Ty::Int,
                    };
                    let s = self.split(b, 2);
                    let l = self.sub(t, s[0].max(1), d);
                    let r = self.sub(t, s[1].max(1), d);
                    Expr::Bin(op, l, r)
                },
                7 => {
                    let op = if self.rng.percent(50) { Bin::Eq } else { Bin::Neq };
                    let t = self.any_ty();
                    let s = self.split(b, 2);
                    let l = Box::new(self.expr(t, s[0].max(1), d));
                    let u = if self.rng.percent(70) { t } else { self.any_ty() };
                    let r = Box::new(self.expr(u, s[1].max(1), d));
                    Expr::Bin(op, l, r)
                },
                _ => {
                    let t = self.any_ty();
                    let a = self.expr(t, b, d);
                    self.call_behaviour("h", Some(a), Ty::Bool)
                },
            },
            Ty::Str => match self.rng.below(3) {
                0 | 1 => {
                    let s = self.split(b, 2);
                    let l = self.sub(Ty::Str, s[0].max(1), d);
                    let r = self.sub(Ty::Str, s[1].max(1), d);
                    Expr::Bin(Bin::Add, l, r)
                },
                _ if self.cfg.builtins => {
                    let t = self.any_ty();
                    let a = self.expr(t, b, d);
                    self.call("typeof", a)
                },
                _ => {
                    let s = self.split(b, 2);
                    let l = self.sub(Ty::Str, s[0].max(1), d);
                    let r = self.sub(Ty::Str, s[1].max(1), d);
                    Expr::Bin(Bin::Add, l, r)
                },
            },
            Ty::Tuple => match self.rng.below(3) {
                0 | 1 => {
                    let n = self.rng.range(2, 3);
                    let shares = self.split(b, n);
                    let mut v = Vec::new();
                    for s in shares {
                        let t = self.any_ty();
                        v.push(self.expr(t, s.max(1), d));
                    }
                    Expr::Tuple(v)
                },
                _ => {
                    let t = self.any_ty();
                    let a = self.expr(t, b, d);
                    let f = if self.rng.percent(25) { "r" } else { "k" };
                    self.call_behaviour(f, Some(a), Ty::Tuple)
                },
            },
            Ty::Empty => match self.rng.below(4) {
                _ if !self.cfg.nested_statements => self.call_behaviour("f", None, Ty::Empty),
                0 => self.call_behaviour("f", None, Ty::Empty),
                _ => self.assignment(budget, depth),
            },
        }
    }
}

/// Random initial context: a subset of the names bound to random values, a subset of the
/// sentinel functions registered, builtins on or off.
pub fn gen_setup(rng: &mut Rng) -> Setup {
    let mut vars = Vec::new();
    for n in VAR_NAMES {
        if rng.percent(60) {
            vars.push((n.to_string(), any_value_ext(rng)));
        }
    }
    for n in EXTRA_VAR_NAMES {
        if rng.percent(8) {
            vars.push((n.to_string(), any_value_ext(rng)));
        }
    }
    if rng.percent(3) {
        let n = *rng.pick(&crate::env::API_ONLY_NAMES);
        vars.push((n.to_string(), any_value_ext(rng)));
    }
    let mut fns = Vec::new();
    let all = rng.percent(85);
    for f in FN_NAMES {
        if all || rng.percent(50) {
            fns.push(f.to_string());
        }
    }
    for f in SHADOW_NAMES {
        if rng.percent(12) {
            fns.push(f.to_string());
        }
    }
    Setup {
        vars,
        fns,
        builtins_disabled: rng.percent(20),
        aging: if rng.percent(8) { *rng.pick(&[40usize, 150, 300]) } else { 0 },
    }
}

/// Swarm-style configuration of the generator for one run.
pub fn gen_cfg(rng: &mut Rng, setup: &Setup) -> GenCfg {
    let spiny = rng.percent(20);
    let (budget, max_depth) = if spiny && rng.percent(12) {
        // very deep (depth limits, recursion budgets)
        let d = rng.range(130, 300);
        (d * 5 / 2, d)
    } else if spiny {
        (rng.range(20, 70), rng.range(20, 60))
    } else {
        (*rng.pick(&[4usize, 8, 12, 20, 32]), rng.range(2, 8))
    };
    GenCfg {
        budget,
        max_depth,
        well_typed_pct: *rng.pick(&[75, 90, 97, 100, 100]),
        fail_leaf_pct: *rng.pick(&[0, 0, 1, 3, 8]),
        builtins: if setup.builtins_disabled { rng.percent(10) } else { rng.percent(80) },
        spiny,
        max_statements: *rng.pick(&[1usize, 2, 3, 5]),
        assign_pct: *rng.pick(&[30, 50, 70]),
        nested_statements: true,
    }
}
